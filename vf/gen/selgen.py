"""Executable statements over a fixed schema, written in the intersection of the mindsdb dialect and SQLite syntax,
plus random database states.  Used by C06 (renderer) and, with integration qualifiers, by C08/C11 (planner)."""
import re

SCHEMA = {
    't1': [('id', 'INTEGER'), ('a', 'INTEGER'), ('b', 'REAL'), ('c', 'TEXT')],
    't2': [('id', 'INTEGER'), ('a', 'INTEGER'), ('d', 'TEXT')],
    't3': [('id', 'INTEGER'), ('x', 'INTEGER'), ('y', 'TEXT')],
}
TEXTS = ['x', 'y', 'abc', 'Abc', '', 'a b', "it's", '%', 'zz', 'b\\s', '"q"', 'say "hi"']
# column layouts the expression helpers may draw from (incl. the derived table used by the generator)
LAYOUT = dict(SCHEMA)
LAYOUT['_d'] = [('id', 'INTEGER'), ('a', 'INTEGER')]


def random_state(rng, empty_prob=0.1):
    """{table: [rows]} with NULLs, duplicates in the non-id columns and, now and then, a whole row repeated."""
    st = {}
    for t, cols in SCHEMA.items():
        n = 0 if rng.random() < empty_prob else rng.randint(1, 6)
        rows = []
        for i in range(n):
            row = [i + 1]
            for (c, ty) in cols[1:]:
                if rng.random() < 0.2:
                    row.append(None)
                elif ty == 'INTEGER':
                    row.append(rng.choice([0, 1, 1, 2, 2, 3, -1, 5]))
                elif ty == 'REAL':
                    row.append(rng.choice([0.5, 1.5, 2.0, 2.0, -1.25, 10.0]))
                else:
                    row.append(rng.choice(TEXTS))
            rows.append(tuple(row))
        # a table need not have a key: now and then one whole row occurs twice (or three times)
        if rows and rng.random() < 0.25:
            rows += [rows[rng.randrange(len(rows))]] * rng.choice([1, 1, 2])
        st[t] = rows
    return st


def load_state(db, state, schema_prefix=''):
    for t, cols in SCHEMA.items():
        db.execute(f'create table {schema_prefix}{t} (' + ', '.join(f'{c} {ty}' for c, ty in cols) + ')')
        if state.get(t):
            db.executemany(f'insert into {schema_prefix}{t} values (' + ','.join('?' * len(cols)) + ')', state[t])


def dump_state(db):
    out = {}
    names = [r[0] for r in db.execute("select name from sqlite_master where type = 'table' order by name")]
    for n in names:
        info = list(db.execute(f'pragma table_info("{n}")'))
        cols = [r[1] for r in info]
        rows = sorted(db.execute(f'select * from "{n}"').fetchall(), key=repr)
        # what the table accepts is part of its state: columns that refuse NULL (declared NOT NULL or part of the primary key -
        # the renderer writes NOT NULL on key columns, which means the same) and the key columns in order
        constraints = sorted((r[1], bool(r[3]) or bool(r[5]), r[5]) for r in info if r[3] or r[5])
        out[n] = (cols, rows, constraints) if constraints else (cols, rows)
    return out


class Gen:
    """Random executable SELECT / DML / DDL text.  `q(table)` lets the caller qualify table names (integration prefix)."""

    def __init__(self, rng, qual=None):
        self.r = rng
        self.qual = qual or (lambda t: t)
        self.features = set()

    # --- expressions ---------------------------------------------------------------------------------------
    def num_col(self, alias, table):
        cols = [c for c, ty in LAYOUT[table] if ty in ('INTEGER', 'REAL')]
        return f'{alias}.{self.r.choice(cols)}'

    def txt_col(self, alias, table):
        cols = [c for c, ty in LAYOUT[table] if ty == 'TEXT']
        if not cols:
            return f'CAST({alias}.id AS TEXT)'
        return f'{alias}.{self.r.choice(cols)}'

    def any_col(self, alias, table):
        return f'{alias}.{self.r.choice(LAYOUT[table])[0]}'

    def num_expr(self, scope, depth=2):
        r = self.r
        alias, table = r.choice(scope)
        if depth <= 0 or r.random() < 0.35:
            if r.random() < 0.05:
                # decimals far below / above what a fixed number of decimal places holds, scaled back into sight (1.0, 1.2345678, 5.0)
                self.features.add('expr:tiny-or-huge-decimal')
                return r.choice(['(0.000000000000000001 * 1000000000000000000.0)', '(0.00000000000000012345678 * 10000000000000000.0)',
                                 '(50000000000000000000.0 / 10000000000000000000.0)', '(0.0000000000000000000000025 * 1000000000000000000000000.0)'])
            return r.choice([self.num_col(alias, table), str(r.choice([0, 1, 2, 3, 10])), self.num_col(alias, table)])
        k = r.choice(['+', '-', '*', '/', '%', 'neg', 'paren', 'abs', 'coalesce', 'case', 'cast', 'len'])
        self.features.add('expr:' + k)
        if k in ('+', '-', '*'):
            return f'{self.num_expr(scope, depth - 1)} {k} {self.num_expr(scope, depth - 1)}'
        if k == '/':
            # keep a REAL operand: SQLAlchemy renders true division, SQLite divides integers
            v = r.randrange(5)
            if v < 2:
                return f'{self.num_expr(scope, depth - 1)} / 2.0'
            # a parenthesised operand of the same precedence level on the RIGHT of a division (and of a minus): the parentheses carry
            # the meaning, `a / (b * c)` is not `a / b * c`
            a, b = self.num_expr(scope, depth - 1), self.num_col(alias, table)
            return [f'{a} / ({b} * 2.0)', f'{a} / (2.0 * {b} % 3)', f'{a} * 1.0 / ({b} / 4.0)', f'{a} - ({b} - 2.0 / ({alias}.id * 0.5))'][v - 2] if v < 5 else ''
        if k == '%':
            return f'{alias}.id % {r.choice([2, 3])}'
        if k == 'neg':
            return f'-{self.num_col(alias, table)}'
        if k == 'paren':
            return f'({self.num_expr(scope, depth - 1)})'
        if k == 'abs':
            return f'abs({self.num_expr(scope, depth - 1)})'
        if k == 'coalesce':
            return f'coalesce({self.num_col(alias, table)}, {r.choice([0, 9])})'
        if k == 'case':
            return f'CASE WHEN {self.bool_expr(scope, depth - 1)} THEN {self.num_expr(scope, 0)} ELSE {self.num_expr(scope, 0)} END'
        if k == 'cast':
            if r.random() < 0.3:
                # a cast of a cast: the inner one may lose information (REAL -> INTEGER -> ...), both stay
                return f'CAST(CAST({self.any_col(alias, table)} AS {r.choice(["INTEGER", "INTEGER", "REAL"])}) AS {r.choice(["REAL", "INTEGER"])})'
            return f'CAST({self.any_col(alias, table)} AS {r.choice(["INTEGER", "REAL"])})'
        return f'length({self.txt_col(alias, table)})' if any(ty == 'TEXT' for _, ty in LAYOUT[table]) else f'{alias}.id'

    def txt_expr(self, scope):
        r = self.r
        alias, table = r.choice(scope)
        k = r.choice(['col', 'col', 'lower', 'upper', 'const', 'concat', 'casttext'])
        self.features.add('text:' + k)
        c = self.txt_col(alias, table)
        if k == 'col':
            return c
        if k == 'lower':
            return f'lower({c})'
        if k == 'upper':
            return f'upper({c})'
        if k == 'const':
            return "'" + r.choice(['x', 'abc', "it''s", '', 'b\\s', 'p%c', 'a:b', '"q"', 'say "hi"', '"']) + "'"
        if k == 'concat':
            return f"{c} || '-' || {c}"
        if r.random() < 0.3:
            return f'CAST(CAST({self.any_col(alias, table)} AS INTEGER) AS TEXT)'
        return f'CAST({self.num_col(alias, table)} AS TEXT)'

    def bool_expr(self, scope, depth=2, subq=False):
        r = self.r
        alias, table = r.choice(scope)
        kinds = ['cmp', 'cmp', 'colconst', 'colconst', 'and', 'or', 'not', 'in', 'between', 'like', 'isnull', 'isnotnull', 'paren', 'txtcmp', 'notin', 'notlike', 'ne',
                 'cmpnull']
        if subq:
            kinds += ['insub', 'notinsub', 'exists', 'notexists', 'scalar']
        k = r.choice(kinds) if depth > 0 else r.choice(['cmp', 'colconst', 'isnull', 'in', 'txtcmp'])
        self.features.add('bool:' + k)
        if k == 'cmpnull':
            # a comparison WITH the NULL literal is never true (it is not IS NULL)
            return f'{self.any_col(alias, table)} {r.choice(["=", "!=", "<>", "<", ">="])} NULL'
        if k == 'colconst':
            # the shape planners push down: one column against one constant, written either way round
            op = r.choice(['=', '<', '<=', '>', '>=', '!='])
            c_, v_ = self.num_col(alias, table), r.choice([0, 1, 2, 3, -1])
            return f'{c_} {op} {v_}' if r.random() < 0.5 else f'{v_} {op} {c_}'
        if k == 'cmp':
            return f'{self.num_expr(scope, depth - 1)} {r.choice(["=", "<", "<=", ">", ">="])} {self.num_expr(scope, depth - 1)}'
        if k == 'ne':
            return f'{self.num_col(alias, table)} {r.choice(["!=", "<>"])} {r.choice([0, 1, 2])}'
        if k == 'txtcmp':
            return f"{self.txt_expr(scope)} {r.choice(['=', '!=', '<', '>'])} {self.txt_expr(scope)}"
        if k == 'and':
            return f'{self.bool_expr(scope, depth - 1, subq)} AND {self.bool_expr(scope, depth - 1)}'
        if k == 'or':
            return f'({self.bool_expr(scope, depth - 1, subq)} OR {self.bool_expr(scope, depth - 1)})'
        if k == 'not':
            inner = r.choice(['isnull', 'isnotnull', 'cmp', 'in', 'like', 'between', 'any', 'in-null'])
            self.features.add('bool:not-' + inner)
            if inner == 'isnull':
                return f'NOT ({self.any_col(alias, table)} IS NULL)'
            if inner == 'isnotnull':
                return f'NOT ({self.any_col(alias, table)} IS NOT NULL)'
            if inner == 'cmp':
                return f'NOT {self.num_col(alias, table)} {r.choice(["=", "<", ">=", "!="])} {r.choice([0, 1, 2])}'
            if inner == 'in':
                return f'NOT ({self.num_col(alias, table)} IN (1, 2))'
            if inner == 'in-null':
                # a NULL in the list makes the predicate UNKNOWN (not false) for every value that is not listed
                return r.choice([f'NOT ({self.num_col(alias, table)} IN (1, NULL))', f'({self.num_col(alias, table)} IN (1, NULL)) IS NULL',
                                 f'({self.num_col(alias, table)} IN (2, NULL, 3)) IS NOT NULL', f'coalesce({self.num_col(alias, table)} IN (1, NULL), 7) = 7'])
            if inner == 'like':
                return f"NOT ({self.txt_col(alias, table)} LIKE 'a%')" if any(ty == 'TEXT' for _, ty in LAYOUT[table]) else f'NOT {alias}.id = 1'
            if inner == 'between':
                return f'NOT ({self.num_col(alias, table)} BETWEEN 1 AND 2)'
            return f'NOT ({self.bool_expr(scope, depth - 1)})'
        if k == 'in':
            return f'{self.num_col(alias, table)} IN ({", ".join(str(r.choice([0, 1, 2, 3, 5])) for _ in range(r.randint(1, 3)))})'
        if k == 'notin':
            return f'{self.num_col(alias, table)} NOT IN (1, 2)'
        if k == 'between':
            return f'{self.num_col(alias, table)} BETWEEN {r.choice([0, 1])} AND {r.choice([1, 2, 3])}'
        if k in ('like', 'notlike'):
            if not any(ty == 'TEXT' for _, ty in LAYOUT[table]):
                return f'{alias}.id > 0'
            return f"{self.txt_col(alias, table)} {'LIKE' if k == 'like' else 'NOT LIKE'} '{r.choice(['a%', '%b%', 'x', '%', '_'])}'"
        if k == 'isnull':
            return f'{self.any_col(alias, table)} IS NULL'
        if k == 'isnotnull':
            return f'{self.any_col(alias, table)} IS NOT NULL'
        if k == 'paren':
            return f'({self.bool_expr(scope, depth - 1, subq)})'
        # subqueries (uncorrelated, and correlated EXISTS)
        t = r.choice(['t1', 't2', 't3'])
        q = self.qual(t)
        col = 'a' if t != 't3' else 'x'
        if k == 'insub':
            return f'{self.num_col(alias, table)} IN (SELECT s.{col} FROM {q} AS s WHERE s.id < 4)'
        if k == 'notinsub':
            return f'{self.num_col(alias, table)} NOT IN (SELECT s.{col} FROM {q} AS s WHERE s.{col} IS NOT NULL)'
        if k == 'exists':
            return f'EXISTS (SELECT s.id FROM {q} AS s WHERE s.id = {alias}.id)'
        if k == 'notexists':
            return f'NOT EXISTS (SELECT s.id FROM {q} AS s WHERE s.{col} = {alias}.id)'
        return f'{self.num_col(alias, table)} >= (SELECT min(s.{col}) FROM {q} AS s)'

    # --- selects --------------------------------------------------------------------------------------------
    def simple_select(self, with_order=True, allow_limit=True, subq=True):
        """Single-table or joined SELECT.  Returns (text, ordered: bool)."""
        r = self.r
        self.features.add('select')
        tables = ['t1', 't2', 't3']
        t0 = r.choice(tables)
        scope = [('p', t0)]
        frm = f'{self.qual(t0)} AS p'
        njoin = r.choice([0, 0, 1, 1, 2])
        used = ['p']
        for j in range(njoin):
            tj = r.choice(tables)
            al = 'q' if j == 0 else 'w'
            kind = r.choice(['JOIN', 'INNER JOIN', 'LEFT JOIN', 'LEFT OUTER JOIN', 'RIGHT JOIN', 'FULL JOIN', 'FULL OUTER JOIN', 'CROSS JOIN'])
            self.features.add('join:' + kind)
            if kind == 'CROSS JOIN':
                frm += f' CROSS JOIN {self.qual(tj)} AS {al}'
                if r.random() < 0.4:
                    # (MySQL and SQLite read CROSS JOIN .. ON as an inner join)
                    prev = r.choice(scope)
                    frm += f' ON {prev[0]}.id = {al}.id'
                    self.features.add('cross-join-with-on')
            else:
                prev = r.choice(scope)
                keyl = r.choice(['id', 'a' if prev[1] != 't3' else 'x'])
                keyr = r.choice(['id', 'a' if tj != 't3' else 'x'])
                cond = f'{prev[0]}.{keyl} = {al}.{keyr}'
                if r.random() < 0.3:
                    cond += f' AND {al}.id {r.choice(["<", ">", "!="])} {r.choice([1, 2, 3])}'
                frm += f' {kind} {self.qual(tj)} AS {al} ON {cond}'
            scope.append((al, tj))
        if r.random() < 0.12:
            # derived table
            self.features.add('derived-table')
            # (with or without clauses of its own that an outer filter must not be merged past: a row limit after a total order)
            inner_tail = r.choice(['WHERE s.id <= 4', 'WHERE s.id <= 4', 'ORDER BY s.id LIMIT 2', 'ORDER BY s.id DESC LIMIT 3 OFFSET 1', 'WHERE s.a IS NOT NULL ORDER BY s.id LIMIT 2'])
            frm = f'(SELECT s.id AS id, s.a AS a FROM {self.qual("t1")} AS s {inner_tail}) AS p'
            scope = [('p', '_d')]
            njoin = 0
        grouped = r.random() < 0.2
        # (DISTINCT together with GROUP BY matters when the select list leaves the grouping key out: two groups may give the same row)
        distinct = r.random() < (0.3 if grouped else 0.12)
        targets = []
        if grouped:
            self.features.add('group-by')
            galias, gtable = scope[0]
            gcol = r.choice([c for c, ty in LAYOUT[gtable] if c != 'id'])
            targets = [f'{galias}.{gcol} AS g', 'count(*) AS n', f'sum({galias}.id) AS s', f'min({galias}.id) AS mn', f'max({galias}.id) AS mx'][:r.randint(2, 5)]
            if r.random() < 0.3:
                targets.append(f'count(DISTINCT {galias}.id) AS cd')
                self.features.add('count-distinct')
            keyless = distinct and r.random() < 0.6
            if keyless:
                targets = [t_ for t_ in targets[1:] if not t_.startswith(('sum(', 'min(', 'max('))] or ['count(*) AS n']
                self.features.add('distinct-group-by-without-key')
        else:
            for i in range(r.randint(1, 3)):
                k = r.random()
                if k < 0.4:
                    al, tb = r.choice(scope)
                    targets.append(f'{self.any_col(al, tb)} AS c{i}')
                elif k < 0.7:
                    targets.append(f'{self.num_expr(scope, 2)} AS c{i}')
                elif k < 0.85 and any(ty == 'TEXT' for al, tb in scope for _, ty in LAYOUT[tb]):
                    sc = [(al, tb) for al, tb in scope if any(ty == 'TEXT' for _, ty in LAYOUT[tb])]
                    targets.append(f'{self.txt_expr(sc)} AS c{i}')
                else:
                    # CASE of every build: one or several branches, results that repeat (also the ELSE value in an early branch),
                    # the simple form with an operand, no ELSE at all
                    kc = r.random()
                    if kc < 0.4:
                        targets.append(f'CASE WHEN {self.bool_expr(scope, 1)} THEN 1 ELSE 0 END AS c{i}')
                    elif kc < 0.75:
                        res = [r.choice([0, 1, 2]) for _ in range(r.choice([2, 3]))]
                        els = r.choice(res + [9])
                        branches = ' '.join(f'WHEN {self.bool_expr(scope, 1)} THEN {x}' for x in res)
                        targets.append(f'CASE {branches}' + (f' ELSE {els}' if r.random() < 0.8 else '') + f' END AS c{i}')
                    else:
                        al, tb = r.choice(scope)
                        res = [r.choice([10, 20]) for _ in range(2)]
                        targets.append(f'CASE {self.num_col(al, tb)} WHEN 1 THEN {res[0]} WHEN 2 THEN {res[1]} ELSE {r.choice(res + [30])} END AS c{i}')
                    self.features.add('case')
            # the unique ids make results comparable row by row
            targets += [f'{al}.id AS id_{al}' for al, _ in scope]
            if njoin and r.random() < 0.12:
                # a bare star over the join (the order of ITS columns is the order of the tables as written), alone or after other items
                targets = r.choice([['*'], targets[:1] + ['*'], [f'{scope[-1][0]}.*', f'{scope[0][0]}.*']])
                self.features.add('star-over-join')
        s = 'SELECT ' + ('DISTINCT ' if distinct else '') + ', '.join(targets) + ' FROM ' + frm
        if distinct:
            self.features.add('distinct')
        if r.random() < 0.65:
            s += ' WHERE ' + self.bool_expr(scope, 2, subq=subq)
        ordered = False
        if grouped:
            s += f' GROUP BY {galias}.{gcol}'
            if r.random() < 0.4:
                self.features.add('having')
                s += f' HAVING count(*) {r.choice([">", ">=", "="])} {r.choice([1, 2])}'
            if with_order and r.random() < 0.6 and not keyless:
                d = r.choice(['', ' ASC', ' DESC'])
                nl = r.choice(['', ' NULLS FIRST', ' NULLS LAST'])
                self.features.add('order' + d + nl)
                s += f' ORDER BY {galias}.{gcol}{d}{nl}'
                ordered = True        # group key is unique per row
        elif with_order and r.random() < 0.6:
            terms = []
            if r.random() < 0.6:
                al, tb = r.choice(scope)
                d = r.choice(['', ' ASC', ' DESC', ' desc', ' Desc', ' asc'])
                nl = r.choice(['', '', ' NULLS FIRST', ' NULLS LAST', ' nulls first', ' Nulls Last'])
                self.features.add('order' + d.upper() + nl.upper())
                # a plain column, or an expression over columns (never an ordinal: `ORDER BY 1` is a position, not a value)
                key = self.any_col(al, tb) if r.random() < 0.7 else r.choice([f'abs({self.num_col(al, tb)})', f'{self.num_col(al, tb)} + 1', f'- {self.num_col(al, tb)}',
                                                                               f'coalesce({self.num_col(al, tb)}, 0)'])
                terms.append(f'{key}{d}{nl}')
            # total order: all ids (NULL ids from outer joins: fix their place)
            for al, _ in scope:
                terms.append(f'{al}.id{r.choice(["", " DESC"])} NULLS LAST')
            s += ' ORDER BY ' + ', '.join(terms)
            ordered = True
            if allow_limit and r.random() < 0.4:
                self.features.add('limit')
                s += f' LIMIT {r.choice([0, 1, 2, 3, 10, 100])}'
                if r.random() < 0.5:
                    self.features.add('offset')
                    s += f' OFFSET {r.choice([0, 1, 2, 7])}'
        return s, ordered

    def query(self):
        """(text, ordered); one statement in four writes its table and column aliases without AS"""
        text, ordered = self._query()
        if 'cte1' in text and self.r.random() < 0.4:
            # a CTE name with capital letters, every reference spelled the same way
            text = text.replace('cte1', self.r.choice(['Recent', 'CTE_X', 'myCte']))
            self.features.add('cte-name-with-capitals')
        if self.r.random() < 0.25:
            # alias names are lower-case words; CAST(.. AS TYPE) and `cte AS (` are left alone
            text2 = re.sub(r' AS (?=[a-z])', ' ', text)
            if text2 != text:
                self.features.add('implicit-alias')
                text = text2
        return text, ordered

    def unaliased_query(self):
        """Tables read without an alias (columns qualified by the table name), comma joins, and nested queries that read - by comma
        join - a table of the same name as the enclosing query does: each FROM list is the query's own."""
        r = self.r
        a, b = r.choice([('t1', 't2'), ('t2', 't1')])
        self.features.add('unaliased-tables')
        shape = r.choice(['in-comma', 'scalar-comma', 'exists-comma', 'comma-join', 'join', 'comma3', 'twice', 'correlated', 'in-comma-other'])
        self.features.add('unaliased:' + shape)
        w = r.choice(['', f' AND {b}.id > 1', f' AND {b}.a IS NOT NULL'])
        if shape == 'in-comma':
            return f'SELECT {a}.id AS id, {a}.a AS a FROM {a} WHERE {a}.a IN (SELECT {b}.a FROM {b}, {a} WHERE {b}.id = {a}.id{w})', False
        if shape == 'in-comma-other':
            return f'SELECT {a}.id AS id FROM {a}, t3 WHERE {a}.id = t3.id AND {a}.a IN (SELECT {b}.a FROM {b}, t3 WHERE {b}.id = t3.x{w})', False
        if shape == 'scalar-comma':
            return f'SELECT {a}.id AS id, (SELECT count(*) FROM {b}, {a} WHERE {b}.id = {a}.id{w}) AS n FROM {a}', False
        if shape == 'exists-comma':
            return f'SELECT {a}.id AS id FROM {a} WHERE {r.choice(["", "NOT "])}EXISTS (SELECT 1 FROM {b}, {a} WHERE {b}.a = {a}.a AND {b}.id > 2)', False
        if shape == 'comma-join':
            return f'SELECT {a}.id AS id1, {b}.id AS id2 FROM {a}, {b} WHERE {a}.a = {b}.a{w}', False
        if shape == 'join':
            return f'SELECT {a}.id AS id1, {b}.a AS a FROM {a} {r.choice(["JOIN", "LEFT JOIN"])} {b} ON {a}.id = {b}.id WHERE {a}.id > 0', False
        if shape == 'comma3':
            return f'SELECT {a}.id AS id1, {b}.id AS id2, t3.y AS y FROM {a}, {b}, t3 WHERE {a}.id = {b}.id AND t3.id = {a}.id', False
        if shape == 'twice':
            return f'SELECT {a}.id AS id1, x.id AS id2 FROM {a}, {a} AS x WHERE {a}.id = x.a', False
        return f'SELECT {a}.id AS id FROM {a} WHERE {a}.a = (SELECT max({b}.a) FROM {b} WHERE {b}.id = {a}.id)', False

    def _query(self):
        r = self.r
        k = r.random()
        if self.qual('t1') == 't1' and r.random() < 0.06:
            return self.unaliased_query()
        if k < 0.7:
            return self.simple_select()
        if k < 0.85:
            # a chain of one to three set operations (all left-associative with equal precedence, in the library's
            # grammar and in SQLite alike); selecting only the non-unique column makes ALL / DISTINCT observable
            cols = r.choice(['id-a', 'id-a', 'a', 'a', 'a-const'])
            n_ops = r.choice([1, 1, 1, 2, 2, 3])
            parts, ops = [], []
            for i in range(n_ops + 1):
                t = r.choice(['t1', 't2'])
                al = 'pqrs'[i]
                sel = {'id-a': f'{al}.id AS id, {al}.a AS a', 'a': f'{al}.a AS a', 'a-const': f'{al}.a AS a, 1 AS k'}[cols]
                parts.append(f'SELECT {sel} FROM {self.qual(t)} AS {al}' + (f' WHERE {self.bool_expr([(al, t)], 1)}' if r.random() < 0.5 else ''))
            text = parts[0]
            for i in range(n_ops):
                op = r.choice(['UNION', 'UNION ALL', 'INTERSECT', 'EXCEPT'])
                ops.append(op)
                self.features.add('setop:' + op)
                text += f' {op} {parts[i + 1]}'
            if n_ops > 1:
                self.features.add('setop-chain:' + '>'.join(o.replace(' ', '_') for o in ops))
            return text, False
        if k < 0.93:
            self.features.add('cte')
            shapes = ['plain', 'plain', 'body-union', 'main-union', 'used-twice', 'joined', 'two-ctes', 'in-subquery']
            if self.qual('t1') == 't1' or getattr(self, 'nested_with', False):
                # a WITH clause of a nested query (derived table, IN / EXISTS operand, body of another CTE); its name may be the name of
                # a table that the enclosing query reads: it is local to the nested query
                shapes += ['nested-derived', 'nested-in', 'nested-exists', 'nested-cte-body']
            shape = r.choice(shapes)
            self.features.add('cte:' + shape)
            if shape == 'plain':
                inner, _ = self.simple_select(with_order=False, allow_limit=False, subq=False)
                return f'WITH cte1 AS ({inner}) SELECT * FROM cte1', False
            t1, t2 = r.choice(['t1', 't2']), r.choice(['t1', 't2'])
            a = f'SELECT p.id AS id, p.a AS a FROM {self.qual(t1)} AS p' + r.choice(['', ' WHERE p.a > 0', ' WHERE p.id < 4'])
            b = f'SELECT q.id AS id, q.a AS a FROM {self.qual(t2)} AS q' + r.choice(['', ' WHERE q.a IS NOT NULL'])
            op = r.choice(['UNION', 'UNION ALL', 'EXCEPT', 'INTERSECT'])
            if shape.startswith('nested-'):
                other = 't2' if t1 == 't1' else 't1'
                # (with qualified tables the nested name never equals a table reference: a plain local name)
                n = r.choice([other, other, 'cte9']) if self.qual('t1') == 't1' else 'cte9'
                if n != 'cte9':
                    self.features.add('cte:nested-name-shadows-outer-table')
                other = self.qual(other)
                bq = f'SELECT q.id AS id, q.a AS a FROM {other} AS q'
                inner = f'WITH {n} AS ({a}) SELECT c.id AS id, c.a AS a FROM {n} AS c'
                if shape == 'nested-derived':
                    return f'SELECT s.id AS id, q.a AS a FROM ({inner}) AS s {r.choice(["JOIN", "LEFT JOIN"])} {other} AS q ON q.id = s.id', False
                if shape == 'nested-in':
                    return f'{bq} WHERE q.id {r.choice(["IN", "NOT IN"])} (WITH {n} AS ({a}) SELECT c.id FROM {n} AS c WHERE c.id IS NOT NULL)', False
                if shape == 'nested-exists':
                    return f'{bq} WHERE {r.choice(["", "NOT "])}EXISTS (WITH {n} AS ({a}) SELECT c.id FROM {n} AS c WHERE c.id = q.id)', False
                return f'WITH big AS ({inner}) SELECT d.id AS id, q.a AS a FROM big AS d JOIN {other} AS q ON q.id = d.id', False
            if shape == 'body-union':
                return f'WITH cte1 AS ({a} {op} {b}) SELECT c.id AS id, c.a AS a FROM cte1 AS c WHERE c.id > 1', False
            if shape == 'main-union':
                return f'WITH cte1 AS ({a}) SELECT c.id AS id, c.a AS a FROM cte1 AS c {op} {b}', False
            if shape == 'used-twice':
                return f'WITH cte1 AS ({a}) SELECT c.id AS id, d.a AS a FROM cte1 AS c JOIN cte1 AS d ON c.a = d.id', False
            if shape == 'joined':
                return f'WITH cte1 AS ({a}) SELECT c.id AS id, q.a AS a FROM cte1 AS c {r.choice(["JOIN", "LEFT JOIN"])} {self.qual(t2)} AS q ON c.id = q.id', False
            if shape == 'two-ctes':
                return f'WITH cte1 AS ({a}), cte2 AS (SELECT c.id AS id, c.a AS a FROM cte1 AS c WHERE c.a < 3) SELECT d.id AS id, d.a AS a FROM cte2 AS d', False
            return f'WITH cte1 AS ({a}) {b} WHERE q.id IN (SELECT c.id FROM cte1 AS c)' if ' WHERE ' not in b else f'WITH cte1 AS ({a}) {b} AND q.id IN (SELECT c.id FROM cte1 AS c)', False
        self.features.add('window')
        t = r.choice(['t1', 't2'])
        fn = r.choice(['row_number()', 'rank()', 'sum(p.id)', 'count(*)'])
        part = f'PARTITION BY p.a ' if r.random() < 0.7 else ''
        d = r.choice(['', ' DESC', ' desc', ' Desc', ' ASC', ' asc'])
        return f'SELECT p.id AS id, {fn} OVER ({part}ORDER BY p.id{d}) AS w FROM {self.qual(t)} AS p', False

    def dml(self):
        r = self.r
        k = r.choice(['insert-values', 'insert-values', 'insert-select', 'update', 'update', 'delete', 'delete', 'create', 'drop'])
        self.features.add('stmt:' + k)
        if k == 'insert-values':
            rows = ', '.join(f"({r.randint(10, 99)}, {r.choice(['NULL', '1', '2', '-3'])}, {r.choice(['NULL', '0.5', '2.0'])}, "
                             f"{r.choice(['NULL', chr(39) + 'x' + chr(39), chr(39) + 'it' + chr(39) * 2 + 's' + chr(39), chr(39) * 2, chr(39) + 'b' + chr(92) + 's' + chr(39), '1', '1.0', '2', '2.0', '-3.0', '0.50'])})" for _ in range(r.randint(1, 3)))
            return f'INSERT INTO {self.qual("t1")} (id, a, b, c) VALUES {rows}'
        if k == 'insert-select':
            return f'INSERT INTO {self.qual("t2")} (id, a, d) SELECT p.id + 100, p.a, p.c FROM {self.qual("t1")} AS p WHERE {self.bool_expr([("p", "t1")], 1)}'
        if k == 'update':
            t = r.choice(['t1', 't2'])
            sets = r.choice([f'a = {r.choice([0, 7])}', f'a = a + 1', f"{'c' if t == 't1' else 'd'} = 'upd'", f"{'c' if t == 't1' else 'd'} = 'u\\d'", f'a = NULL', f'a = id * 2, {"c" if t == "t1" else "d"} = NULL'])
            w = r.choice(['', f' WHERE id > {r.choice([1, 2])}', f' WHERE a IS NULL', f' WHERE a IN (1, 2) OR id = 1', f' WHERE NOT a = 1'])
            return f'UPDATE {self.qual(t)} SET {sets}{w}'
        if k == 'delete':
            t = r.choice(['t1', 't2', 't3'])
            w = r.choice(['', f' WHERE id > {r.choice([1, 2])}', ' WHERE id IN (1, 3)', ' WHERE id BETWEEN 2 AND 3', " WHERE NOT id = 2",
                          f" WHERE {'c' if t == 't1' else 'd' if t == 't2' else 'y'} = 'b\\s'"])
            return f'DELETE FROM {self.qual(t)}{w}'
        if k == 'create':
            cols = r.sample(['k INTEGER', 'v TEXT', 'f REAL', 'n INT', 'b BIGINT', 'ts DATE'], r.randint(1, 4))
            if r.random() < 0.6:
                # column attributes: NOT NULL / NULL on any column, one PRIMARY KEY (inline, with or without NOT NULL, or as a clause)
                cols = [c + r.choice(['', ' NOT NULL', ' NOT NULL', ' NULL']) for c in cols]
                j = r.randrange(len(cols))
                pk = r.choice(['none', 'inline', 'inline-nn', 'clause'])
                base = cols[j].split(' ')[0] + ' ' + cols[j].split(' ')[1]
                if pk == 'inline':
                    cols[j] = base + ' PRIMARY KEY'
                elif pk == 'inline-nn':
                    cols[j] = base + ' PRIMARY KEY NOT NULL'
                elif pk == 'clause':
                    cols.append(f'PRIMARY KEY ({base.split(" ")[0]})')
                self.features.add('ddl:attrs')
            return f'CREATE TABLE {self.qual("newt")} ({", ".join(cols)})'
        return f'DROP TABLE {r.choice(["", "IF EXISTS "])}{self.qual(r.choice(["t3", "t2"]))}'


def setop_chain(rng, qual=lambda t: t):
    """A chain of 2-3 set operations over a low-cardinality column (many duplicate rows, within and across operands), every
    combination of operators with and without ALL.  Returns (text, operator list)."""
    r = rng
    n = r.choice([2, 2, 3])
    ops = [r.choice(['UNION', 'UNION ALL', 'EXCEPT', 'INTERSECT', 'EXCEPT', 'UNION']) for _ in range(n)]
    parts = []
    for i in range(n + 1):
        al = 'pqrs'[i]
        t = r.choice(['t1', 't2', 't3'])
        col = 'x' if t == 't3' else 'a'
        w = r.choice(['', '', '', f' WHERE {al}.id > 1', f' WHERE {al}.{col} IS NOT NULL', f' WHERE {al}.id < 4'])
        parts.append(f'SELECT {al}.{col} AS v FROM {qual(t)} AS {al}{w}')
    text = parts[0]
    if r.random() < 0.35:
        # the last two operands grouped by parentheses on the right: `a op (b op c)` is not `(a op b) op c` for EXCEPT, mixed operators, ALL
        for i, op in enumerate(ops[:-1]):
            text += f' {op} {parts[i + 1]}' if i < len(ops) - 2 else f' {op} ({parts[i + 1]} {ops[-1]} {parts[i + 2]})'
        return text, ops + ['right-nested']
    for i, op in enumerate(ops):
        text += f' {op} {parts[i + 1]}'
    return text, ops


def reference_text(text):
    """SQLite does not read a parenthesised operand of a set operation; `x op (y)` is written `x op SELECT * FROM (y)` for it."""
    return re.sub(r'\b(UNION ALL|UNION|EXCEPT|INTERSECT) \(', r'\1 SELECT * FROM (', text)


def setop_trailing(rng, qual=lambda t: t):
    """A set operation followed by ORDER BY .. LIMIT: in SQL the trailing clauses belong to the WHOLE set operation.
    Returns (text, model_text): model_text states the other reading - the clauses bound to the last SELECT only."""
    r = rng
    t1, t2 = r.choice([('t1', 't2'), ('t2', 't1'), ('t1', 't1'), ('t2', 't2')])
    cols = r.choice(['id-a', 'a'])
    sel = (lambda al: f'{al}.id AS id, {al}.a AS a') if cols == 'id-a' else (lambda al: f'{al}.a AS a')
    w = lambda al: r.choice(['', '', f' WHERE {al}.a IS NOT NULL', f' WHERE {al}.id > 1', f' WHERE {al}.a IN (1, 2)'])
    left = f'SELECT {sel("p")} FROM {qual(t1)} AS p{w("p")}'
    right = f'SELECT {sel("q")} FROM {qual(t2)} AS q{w("q")}'
    op = r.choice(['UNION', 'UNION', 'UNION ALL', 'EXCEPT', 'INTERSECT'])
    order = 'id, a' if cols == 'id-a' else 'a'
    clause = f' ORDER BY {order}{r.choice(["", " DESC"]) if cols == "a" else ""} LIMIT {r.choice([1, 2, 3])}' + r.choice(['', '', ' OFFSET 1'])
    return f'{left} {op} {right}{clause}', f'{left} {op} SELECT * FROM ({right}{clause})', op

