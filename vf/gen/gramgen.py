"""G-gram: random sentences derived from the grammar of the tree under test (Parser._grammar.Productions).

It is only a workload source (no oracle trusts it): it follows whatever grammar the dialect's parser class was built
from, so every production is reachable without enumerating statement kinds by hand.  Terminals are mapped to lexemes
taken from the lexer's own patterns (keywords, symbols) and from small pools (identifiers, numbers, strings, variables)."""
import re


class GramGen:
    def __init__(self, parser_cls, lexer_cls):
        self.prods = {}
        for p in parser_cls._grammar.Productions[1:]:
            self.prods.setdefault(p.name, []).append(p)
        self.start = parser_cls._grammar.Productions[0].prod[0]
        self.nonterms = set(self.prods)
        self.lex = self._lexemes(lexer_cls)
        self.depth = self._min_depths()
        self.uses = {}          # production number -> times used (steer towards rarely used ones)

    @staticmethod
    def _lexemes(L):
        out = {}
        for name in L.tokens:
            pat = getattr(L, name, None)
            if isinstance(pat, str):
                s = pat.replace('\\b', '')
                s = re.sub(r'\[\\s\]\+', ' ', s)
                s = re.sub(r'\[_\|\\s\]', '_', s)
                if s.startswith('(') and '|' in s:
                    s = s.strip('()').split('|')[0]
                s = s.replace('\\', '')
                out[name] = s
        out.update({'ID': None, 'INTEGER': None, 'FLOAT': None, 'QUOTE_STRING': None, 'DQUOTE_STRING': None,
                    'VARIABLE': None, 'SYSTEM_VARIABLE': None})
        return out

    def _min_depths(self):
        INF = 10 ** 6
        d = {n: INF for n in self.nonterms}
        changed = True
        while changed:
            changed = False
            for n, ps in self.prods.items():
                for p in ps:
                    v = 1 + max([d.get(s, 0) if s in self.nonterms else 0 for s in p.prod] or [0])
                    if v < d[n]:
                        d[n] = v
                        changed = True
        return d

    def terminal(self, name, rng):
        s = self.lex.get(name, name)
        if s is not None:
            return s
        if name == 'ID':
            return rng.choice(['a', 'b', 'tbl', 'col1', 'x_y', '`q w`', 'T2', 'db', 'name', 'v'])
        if name == 'INTEGER':
            return rng.choice(['0', '1', '7', '42', '100'])
        if name == 'FLOAT':
            return rng.choice(['0.5', '3.14', '10.0'])
        if name == 'QUOTE_STRING':
            return rng.choice(["'x'", "'a b'", "''", "'2020-01-01'", "'it''s'"])
        if name == 'DQUOTE_STRING':
            return rng.choice(['"dq"', '"d q"'])
        if name == 'VARIABLE':
            return rng.choice(['@v', '@a.b', "@'q v'"])
        if name == 'SYSTEM_VARIABLE':
            return rng.choice(['@@sv', '@@global.x'])
        return name

    def sentence(self, rng, max_depth=9, max_tokens=120, stateless=True, start=None):
        toks = []
        if stateless:
            self.uses = {}      # a case must be a pure function of its seed: no steering across sentences

        def expand(sym, budget):
            if len(toks) > max_tokens:
                return
            if sym not in self.nonterms:
                toks.append(self.terminal(sym, rng))
                return
            ps = [p for p in self.prods[sym] if self._pdepth(p) <= budget] or [min(self.prods[sym], key=self._pdepth)]
            # prefer productions used less often so far
            ps.sort(key=lambda p: (self.uses.get(p.number, 0), rng.random()))
            p = ps[0] if rng.random() < 0.6 else rng.choice(ps)
            self.uses[p.number] = self.uses.get(p.number, 0) + 1
            for s in p.prod:
                expand(s, budget - 1)
        expand(start or self.start, max_depth)
        return ' '.join(toks)

    def _pdepth(self, p):
        return 1 + max([self.depth.get(s, 0) if s in self.nonterms else 0 for s in p.prod] or [0])
