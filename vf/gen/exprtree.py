"""Operator trees over the C03 alphabet, the reference minimal-parenthesis printer (standard SQL
precedence), a fully parenthesised printer (for SQLite evaluation) and enumeration helpers.

Tree forms:  ('leaf', text) | ('neg', x) | ('not', x) | ('bin', op, l, r) | ('like', x, p)
             | ('in', x, [items]) | ('between', x, lo, hi) | ('isnull', x) | ('isnotnull', x)
             | ('notin', x, [items]) | ('notlike', x, p)
A tree node may be wrapped as ('paren', node) to denote redundant user-written parentheses."""

# precedence levels, tightest = highest
P_NEG, P_MUL, P_ADD, P_CMP, P_NOT, P_AND, P_OR = 7, 6, 5, 4, 3, 2, 1

BIN_OPS = {'*': P_MUL, '/': P_MUL, '%': P_MUL, '+': P_ADD, '-': P_ADD,
           '=': P_CMP, '!=': P_CMP, '<': P_CMP, '<=': P_CMP, '>': P_CMP, '>=': P_CMP,
           'AND': P_AND, 'OR': P_OR}

# operator kinds: (name, arity of sub-expression slots)
ALL_KINDS = ['neg', 'not', '*', '/', '%', '+', '-', '=', '!=', '<', '<=', '>', '>=', 'AND', 'OR',
             'like', 'in', 'between', 'isnull', 'isnotnull', 'notin', 'notlike']
REP_KINDS = ['neg', 'not', '*', '%', '+', '-', '=', '<', 'AND', 'OR', 'like', 'in', 'between', 'isnull', 'notin']


def opclass(kind):
    if kind in ('*', '/'):
        return 'mul'
    if kind == '%':
        return 'mod'
    if kind in ('+', '-'):
        return 'add'
    if kind in ('=', '!=', '<', '<=', '>', '>='):
        return 'cmp'
    if kind in ('isnull', 'isnotnull'):
        return 'isnull'
    if kind in ('notin', 'notlike'):
        return kind
    return kind.lower()


def kind_of(t):
    return t[1] if t[0] == 'bin' else t[0]


def prec(t):
    k = t[0]
    if k == 'leaf':
        return 9
    if k == 'paren':
        return 9
    if k == 'neg':
        return P_NEG
    if k == 'not':
        return P_NOT
    if k == 'bin':
        return BIN_OPS[t[1]]
    return P_CMP  # like / in / between / isnull / isnotnull


def nslots(kind):
    if kind in ('neg', 'not', 'isnull', 'isnotnull', 'in', 'notin'):
        return 1
    if kind == 'between':
        return 3
    return 2


def make(kind, subs):
    if kind in ('neg', 'not', 'isnull', 'isnotnull'):
        return (kind, subs[0])
    if kind in ('in', 'notin'):
        return (kind, subs[0], [('leaf', '1'), ('leaf', '2')])
    if kind == 'between':
        return ('between', subs[0], subs[1], subs[2])
    if kind in ('like', 'notlike'):
        return (kind, subs[0], subs[1])
    return ('bin', kind, subs[0], subs[1])


def children(t):
    k = t[0]
    if k in ('leaf',):
        return []
    if k == 'paren':
        return [t[1]]
    if k in ('neg', 'not', 'isnull', 'isnotnull'):
        return [t[1]]
    if k in ('in', 'notin'):
        return [t[1]]
    if k == 'bin':
        return [t[2], t[3]]
    return list(t[1:])


def nops(t):
    if t[0] == 'leaf':
        return 0
    if t[0] == 'paren':
        return nops(t[1])
    return 1 + sum(nops(c) for c in children(t))


def strip_parens(t):
    """Tree without ('paren', x) wrappers."""
    k = t[0]
    if k == 'leaf':
        return t
    if k == 'paren':
        return strip_parens(t[1])
    if k in ('in', 'notin'):
        return (k, strip_parens(t[1]), t[2])
    if k == 'bin':
        return ('bin', t[1], strip_parens(t[2]), strip_parens(t[3]))
    return (k,) + tuple(strip_parens(c) for c in t[1:])


def need_parens(parent, child, slot):
    """Must `child` be parenthesised as operand number `slot` of `parent` so that standard SQL
    precedence/associativity reproduces the tree?  (The printer is conservative exactly where the
    property's side condition says so: comparison/predicate directly under comparison/predicate.)"""
    if child[0] in ('leaf', 'paren'):
        return False
    pp, pc = prec(parent), prec(child)
    pk = parent[0]
    if pk == 'neg':
        # -x : operand must bind at least as tight as unary minus
        return pc < P_NEG
    if pk == 'not':
        # NOT x : x may be any comparison/predicate or another NOT
        return pc < P_NOT
    if pk in ('like', 'between', 'isnull', 'isnotnull', 'in', 'notin', 'notlike'):
        # operands of predicates are arithmetic-level expressions
        return pc <= P_CMP
    # binary
    if pc > pp:
        return False
    if pc < pp:
        return True
    # equal precedence
    if pp == P_CMP:
        return True              # comparison under comparison: always parenthesised
    return slot == 1             # left-assoc chain: right operand needs parentheses


def _unary_join(op, s):
    return op + (' ' if (op == 'NOT' or s.startswith('-')) else '') + s


def minimal(t, marks=None, path=()):
    """Text with minimal parentheses.  `marks`, if given, collects path -> True for every node that
    is printed inside parentheses (required or user-written)."""
    k = t[0]
    if k == 'leaf':
        return t[1]
    if k == 'paren':
        if marks is not None:
            marks[path] = True
        return '(' + minimal(t[1], marks, path) + ')'

    def sub(c, slot):
        # paths address operand slots of the paren-stripped tree
        p = path + (slot,)
        s = minimal(c, marks, p)
        if need_parens(t, c, slot):
            if marks is not None:
                marks[p] = True
            return '(' + s + ')'
        return s

    if k == 'neg':
        return _unary_join('-', sub(t[1], 0))
    if k == 'not':
        return _unary_join('NOT', sub(t[1], 0))
    if k == 'bin':
        return f'{sub(t[2], 0)} {t[1]} {sub(t[3], 1)}'
    if k == 'like':
        return f'{sub(t[1], 0)} LIKE {sub(t[2], 1)}'
    if k == 'in':
        return f'{sub(t[1], 0)} IN ({", ".join(i[1] for i in t[2])})'
    if k == 'notin':
        return f'{sub(t[1], 0)} NOT IN ({", ".join(i[1] for i in t[2])})'
    if k == 'notlike':
        return f'{sub(t[1], 0)} NOT LIKE {sub(t[2], 1)}'
    if k == 'between':
        return f'{sub(t[1], 0)} BETWEEN {sub(t[2], 1)} AND {sub(t[3], 2)}'
    if k == 'isnull':
        return f'{sub(t[1], 0)} IS NULL'
    if k == 'isnotnull':
        return f'{sub(t[1], 0)} IS NOT NULL'
    raise ValueError(k)


def full(t):
    """Fully parenthesised text (SQLite-evaluable)."""
    k = t[0]
    if k == 'leaf':
        return t[1]
    if k == 'paren':
        return full(t[1])
    if k == 'neg':
        return f'(- {full(t[1])})'
    if k == 'not':
        return f'(NOT {full(t[1])})'
    if k == 'bin':
        return f'({full(t[2])} {t[1]} {full(t[3])})'
    if k == 'like':
        return f'({full(t[1])} LIKE {full(t[2])})'
    if k == 'in':
        return f'({full(t[1])} IN ({", ".join(full(i) for i in t[2])}))'
    if k == 'notin':
        return f'({full(t[1])} NOT IN ({", ".join(full(i) for i in t[2])}))'
    if k == 'notlike':
        return f'({full(t[1])} NOT LIKE {full(t[2])})'
    if k == 'between':
        return f'({full(t[1])} BETWEEN {full(t[2])} AND {full(t[3])})'
    if k == 'isnull':
        return f'({full(t[1])} IS NULL)'
    if k == 'isnotnull':
        return f'({full(t[1])} IS NOT NULL)'
    if k == 'other':
        return None
    raise ValueError(k)


def shapes(n, kinds):
    """All operator trees with exactly n operators over `kinds`; leaves are placeholders ('leaf', None)."""
    if n == 0:
        yield ('leaf', None)
        return
    for kind in kinds:
        s = nslots(kind)
        for split in _splits(n - 1, s):
            for subs in _product([list(shapes(m, kinds)) for m in split]):
                yield make(kind, list(subs))


def _splits(total, parts):
    if parts == 1:
        yield (total,)
        return
    for i in range(total + 1):
        for rest in _splits(total - i, parts - 1):
            yield (i,) + rest


def _product(lists):
    if not lists:
        yield ()
        return
    for x in lists[0]:
        for rest in _product(lists[1:]):
            yield (x,) + rest


def name_leaves(t, names):
    """Replace placeholder leaves left-to-right by names (an iterator)."""
    k = t[0]
    if k == 'leaf':
        return ('leaf', next(names)) if t[1] is None else t
    if k == 'paren':
        return ('paren', name_leaves(t[1], names))
    if k in ('in', 'notin'):
        return (k, name_leaves(t[1], names), t[2])
    if k == 'bin':
        l = name_leaves(t[2], names)
        r = name_leaves(t[3], names)
        return ('bin', t[1], l, r)
    return (k,) + tuple(name_leaves(c, names) for c in t[1:])


def random_tree(rng, n, kinds=ALL_KINDS):
    if n == 0:
        return ('leaf', None)
    kind = rng.choice(kinds)
    s = nslots(kind)
    rest = n - 1
    parts = [0] * s
    for _ in range(rest):
        parts[rng.randrange(s)] += 1
    return make(kind, [random_tree(rng, m, kinds) for m in parts])


def add_user_parens(t, rng, p=0.25):
    k = t[0]
    if k == 'leaf':
        return ('paren', t) if rng.random() < p / 3 else t
    if k in ('in', 'notin'):
        n = (k, add_user_parens(t[1], rng, p), t[2])
    elif k == 'bin':
        n = ('bin', t[1], add_user_parens(t[2], rng, p), add_user_parens(t[3], rng, p))
    else:
        n = (k,) + tuple(add_user_parens(c, rng, p) for c in t[1:])
    return ('paren', n) if rng.random() < p else n
