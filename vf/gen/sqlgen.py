"""Seeded SQL text generators: corpus, statement templates (every statement kind of the
mindsdb dialect), expression / select generators and token-level mutations.

Every generator takes a random.Random and returns plain text plus a small label that says
which class the case belongs to (used for coverage evidence only, never by an oracle)."""
import json
import os

HERE = os.path.dirname(os.path.abspath(__file__))

_corpus = None


# every slot of a template that takes a bare integer draws from here: zero (falsy in the host language), leading zeros, one, large
INT_SLOT = ['0', '0', '00', '1', '5', '10', '007', '1000000']

def corpus():
    global _corpus
    if _corpus is None:
        with open(os.path.join(HERE, '..', 'data', 'corpus_raw.json')) as f:
            _corpus = json.load(f)
    return _corpus


# ----------------------------------------------------------------------------------------
# pools
# ----------------------------------------------------------------------------------------

PLAIN_IDS = ['a', 'b', 'c', 'col1', 'Tbl', 'x_y', 'tab2', 'myCol', 't1', 'price', 'k9', '_u', 'Z']
QUOTED_IDS = ['`my col`', '`a-b`', '`Ünï`', '`x y z`', '`1st`']
DB_IDS = ['int1', 'mindsdb', 'files', 'proj', 'db2']
STRINGS = ["'x'", "'hello world'", "''", "'a b'", "'2020-01-01'", "'Ünïcode'", "'%abc%'", "'a:b'",
           "'semi;colon'", "'dash--dash'", "'/* c */'", "'1'", '"dq"', '"d q"', "'my\\_tbl%'", "'back\\\\slash'", "'50%'"]
OPTION_QUOTED = ["'it''s'", "'say \"yes\" now'", "'don''t say ''maybe'', say \"yes\" ok'", "'a ''b'' \"c\" ''d'' e'", "'x \"y\" ''z'' \"w\" v'",
                 "'one '' two \" three'", "'don''t say ''maybe'', say \"yes\"'", "'\"q\" isn''t ''x'' y'", "'\"a\" ''b'' ''c'' \"d\"'"]   # no two quotes side by side in the text: `\'\'` printed, `''` re-read as one (C04-F1's double decoding)
INTS = ['0', '1', '2', '7', '10', '42', '100', '007', '123456789012345678901']
FLOATS = ['0.5', '1.0', '3.14', '10.25', '00.50', '0.00001', '0.30000000000000004', '10000000000000000.0', '123456.78901234567', '0.0000001234']
FUNCS = ['count', 'sum', 'max', 'min', 'avg', 'lower', 'upper', 'coalesce', 'abs', 'concat', 'my_func']
CMP = ['=', '!=', '<>', '<', '<=', '>', '>=']
ARITH = ['+', '-', '*', '/', '%']
TYPES = ['int', 'float', 'varchar', 'text', 'date', 'bigint', 'double']


def ident(rng, quoted=0.1):
    if rng.random() < quoted:
        return rng.choice(QUOTED_IDS)
    return rng.choice(PLAIN_IDS)


def path(rng, maxparts=3, quoted=0.1):
    n = rng.choice([1, 1, 1, 2, 2, 3][:max(1, min(6, maxparts * 2))])
    n = min(n, maxparts)
    return '.'.join(ident(rng, quoted) for _ in range(n))


def table(rng):
    r = rng.random()
    if r < 0.4:
        return ident(rng)
    if r < 0.85:
        return f'{rng.choice(DB_IDS)}.{ident(rng)}'
    return f'{rng.choice(DB_IDS)}.{ident(rng)}.{ident(rng)}'


def const(rng):
    r = rng.random()
    if r < 0.35:
        return rng.choice(INTS[:7])
    if r < 0.5:
        return rng.choice(FLOATS[:4] + FLOATS[5:])
    if r < 0.85:
        return rng.choice(STRINGS)
    return rng.choice(['NULL', 'TRUE', 'FALSE', 'null', 'true'])


def expr(rng, depth=2, boolean=False, subq=True):
    """A random expression in the mindsdb dialect.  boolean=True forces a top-level operation
    (WHERE/HAVING require one)."""
    if depth <= 0 and not boolean:
        r = rng.random()
        if r < 0.45:
            return path(rng, 2)
        return const(rng)
    r = rng.random()
    d = depth - 1
    if boolean:
        k = rng.choice(['cmp', 'cmp', 'cmp', 'and', 'or', 'not', 'in', 'between', 'like', 'isnull', 'paren', 'insub', 'exists'])
    else:
        k = rng.choice(['cmp', 'arith', 'arith', 'func', 'leaf', 'leaf', 'case', 'cast', 'paren', 'neg', 'and',
                        'in', 'between', 'like', 'isnull', 'concat', 'subq', 'not', 'tuplecmp', 'interval', 'typecast',
                        'json', 'kwfunc', 'funcfrom', 'casearg'])
    if k == 'leaf':
        return expr(rng, 0)
    if k == 'cmp':
        return f'{expr(rng, d)} {rng.choice(CMP)} {expr(rng, d)}'
    if k == 'arith':
        return f'{expr(rng, d)} {rng.choice(ARITH)} {expr(rng, d)}'
    if k == 'concat':
        return f'{expr(rng, d)} || {expr(rng, d)}'
    if k == 'and':
        return f'{expr(rng, d, True)} AND {expr(rng, d, True)}'
    if k == 'or':
        return f'{expr(rng, d, True)} OR {expr(rng, d, True)}'
    if k == 'not':
        return f'NOT {expr(rng, d, True)}'
    if k == 'neg':
        return f'-{expr(rng, 0)}'
    if k == 'paren':
        return f'({expr(rng, d, boolean)})'
    if k == 'in':
        items = ', '.join(const(rng) for _ in range(rng.randint(1, 3)))
        return f'{path(rng, 2)} {rng.choice(["IN", "NOT IN", "in", "not in"])} ({items})'
    if k == 'between':
        return f'{path(rng, 2)} BETWEEN {expr(rng, 0)} AND {expr(rng, 0)}'
    if k == 'like':
        return f'{path(rng, 2)} {rng.choice(["LIKE", "NOT LIKE", "like"])} {rng.choice(STRINGS)}'
    if k == 'isnull':
        return f'{path(rng, 2)} {rng.choice(["IS NULL", "IS NOT NULL", "is null", "is not null"])}'
    if k == 'func':
        f = rng.choice(FUNCS)
        if f == 'count' and rng.random() < 0.4:
            return rng.choice(['count(*)', 'COUNT(*)', f'count(DISTINCT {path(rng, 2)})'])
        args = ', '.join(expr(rng, d) for _ in range(rng.randint(0, 2) if f in ('my_func', 'coalesce', 'concat') else 1))
        return f'{f}({args})'
    if k == 'case':
        n = rng.randint(1, 2)
        whens = ' '.join(f'WHEN {expr(rng, d, True)} THEN {expr(rng, d)}' for _ in range(n))
        els = f' ELSE {expr(rng, d)}' if rng.random() < 0.6 else ''
        arg = ''
        if rng.random() < 0.25:
            arg = path(rng, 1) + ' '
            whens = ' '.join(f'WHEN {const(rng)} THEN {expr(rng, d)}' for _ in range(n))
        return f'CASE {arg}{whens}{els} END'
    if k == 'cast':
        return f'CAST({expr(rng, d)} AS {rng.choice(TYPES)})'
    if k == 'typecast':
        return f'{path(rng, 2)}::{rng.choice(TYPES)}'
    if k == 'interval':
        return rng.choice(["INTERVAL '1 day'", "interval 3 hour", "INTERVAL '2' week", f"INTERVAL {rng.choice(INT_SLOT)} day", "INTERVAL '0' hour", "interval '0 min'"])
    if k == 'json':
        return f'{path(rng, 2)} {rng.choice(["->", "->>"])} {rng.choice(STRINGS[:2] + ["0"])}'
    if k == 'kwfunc':
        return f'{rng.choice(["RIGHT", "LEFT", "FULL", "right"])}({path(rng, 1)}, 2)'
    if k == 'funcfrom':
        return rng.choice([f"extract(MONTH FROM {path(rng, 2)})", f"substring({path(rng, 1)} FROM 1 FOR 2)",
                           f"trim({const(rng)} FROM {path(rng, 1)})", 'DATABASE()', f"DATE '2020-01-01'",
                           f'CONVERT({path(rng, 1)}, int)', f'CONVERT({path(rng, 1)} USING utf8)', f'CAST({path(rng, 1)} AS decimal(10, 2))',
                           f'CAST({path(rng, 1)} AS varchar(20))', f'CAST({path(rng, 1)} AS decimal({rng.choice(INT_SLOT)}, {rng.choice(INT_SLOT)}))',
                           f'CAST({path(rng, 1)} AS varchar({rng.choice(INT_SLOT)}))'])
    if k == 'casearg':
        n = rng.randint(1, 2)
        whens = ' '.join(f'WHEN {const(rng)} THEN {expr(rng, d)}' for _ in range(n))
        els = f' ELSE {expr(rng, d)}' if rng.random() < 0.5 else ''
        return f'CASE {expr(rng, min(d, 1))} {whens}{els} END'
    if k == 'tuplecmp':
        return f'({path(rng, 1)}, {path(rng, 1)}) = ({const(rng)}, {const(rng)})'
    if k in ('subq', 'insub', 'exists'):
        if not subq or depth < 1:
            return expr(rng, d, boolean)
        s = select(rng, depth=0, simple=True)
        if k == 'subq':
            return f'({s})'
        if k == 'insub':
            return f'{path(rng, 2)} {rng.choice(["IN", "NOT IN"])} ({s})'
        return f'{rng.choice(["EXISTS", "NOT EXISTS"])} ({s})'
    return expr(rng, 0)


def target(rng, depth):
    r = rng.random()
    if r < 0.12:
        # (the mindsdb grammar also reads an alias after a star)
        return '*' if rng.random() < 0.85 else rng.choice(['* x', '* AS x', '* zz'])
    if r < 0.18:
        return f'{ident(rng)}.*'
    e = expr(rng, depth)
    r = rng.random()
    if r < 0.3:
        e += rng.choice([' AS ', ' as ', ' ']) + ident(rng, 0.2)
    elif r < 0.34:
        e += rng.choice([' AS ', ' ']) + rng.choice(["'al'", '"al2"', "'a b'"])
    return e


def from_item(rng, depth):
    r = rng.random()
    if r < 0.75 or depth <= 0:
        t = table(rng)
        r = rng.random()
        if r < 0.4:
            t += rng.choice([' AS ', ' ']) + ident(rng)
        elif r < 0.43:
            t += rng.choice([' AS ', ' ']) + '"dq alias"'
        return t
    return f'({select(rng, depth - 1, simple=True)}) AS {ident(rng)}'


JOINS = ['JOIN', 'INNER JOIN', 'LEFT JOIN', 'RIGHT JOIN', 'FULL JOIN', 'LEFT OUTER JOIN', 'FULL OUTER JOIN', 'CROSS JOIN',
         'join', 'left join', 'OUTER JOIN']


def select(rng, depth=2, simple=False):
    parts = ['SELECT']
    if rng.random() < 0.1:
        parts.append('DISTINCT')
    nt = 1 if simple else rng.randint(1, 3)
    parts.append(', '.join(target(rng, min(depth, 2)) for _ in range(nt)))
    if rng.random() < 0.92:
        f = from_item(rng, depth)
        nj = 0 if simple else rng.choice([0, 0, 0, 1, 1, 2])
        for _ in range(nj):
            jt = rng.choice(JOINS)
            f += f' {jt} {from_item(rng, depth)}'
            if 'CROSS' not in jt and rng.random() < 0.9:
                f += f' ON {expr(rng, 1, True, subq=False)}'
        if nj == 0 and rng.random() < 0.06:
            f += f', {from_item(rng, 0)}'
            if rng.random() < 0.4:
                f += f', {from_item(rng, 0)}'
        parts.append('FROM ' + f)
        if rng.random() < 0.6:
            parts.append('WHERE ' + expr(rng, min(depth, 2), True))
        if not simple and rng.random() < 0.25:
            parts.append('GROUP BY ' + ', '.join(path(rng, 2) for _ in range(rng.randint(1, 2))))
            if rng.random() < 0.4:
                parts.append('HAVING ' + expr(rng, 1, True, subq=False))
        if not simple and rng.random() < 0.3:
            terms = []
            for _ in range(rng.randint(1, 2)):
                t = path(rng, 2)
                t += rng.choice(['', '', ' ASC', ' DESC', ' asc', ' desc'])
                t += rng.choice(['', '', '', ' NULLS FIRST', ' NULLS LAST'])
                terms.append(t)
            parts.append('ORDER BY ' + ', '.join(terms))
    if not simple and rng.random() < 0.25:
        parts.append('LIMIT ' + rng.choice(['0', '1', '5', '100']))
        if rng.random() < 0.4:
            parts.append('OFFSET ' + rng.choice(['0', '2', '10']))
    return ' '.join(parts)


def kw_value(rng, depth=1, ident_ok=False):
    r = rng.random()
    if r < 0.06:
        # option texts holding quotes of BOTH kinds (which quote the printer picks, and what the reader strips, then matters);
        # the quotes sit inside the text, not at its ends (values that begin / end with a quote are C04-F1's business)
        return rng.choice(OPTION_QUOTED)
    if r < 0.35:
        return rng.choice(STRINGS[:6] + STRINGS[8:11])
    if r < 0.55:
        return rng.choice(INTS[:6])
    if r < 0.65:
        return rng.choice(FLOATS[:3])
    if r < 0.75:
        return rng.choice(['true', 'false', 'null'])
    if r < 0.85 and depth > 0:
        items = ', '.join(kw_value(rng, 0) for _ in range(rng.randint(0, 2)))
        return f'[{items}]'
    if depth > 0:
        items = ', '.join(f'{rng.choice(STRINGS[:2] + [chr(34) + "k" + chr(34)])}: {kw_value(rng, 0)}' for _ in range(rng.randint(0, 2)))
        return '{' + items + '}'
    if depth > 0 or ident_ok:
        return rng.choice(PLAIN_IDS)
    return rng.choice(INTS[:4])


def kw_params(rng, required=(), n=None):
    keys = list(required)
    for _ in range(rng.randint(0, 2) if n is None else n):
        k = rng.choice(['opt1', 'engine', 'mode', 'api_key', 'max_tokens', 'a.b', 'Prompt'])
        if k not in keys:
            keys.append(k)
    rng.shuffle(keys)
    out = []
    for k in keys:
        if k in required and rng.random() < 0.9:
            v = rng.choice(["'val'", 'my_obj', 'proj.obj', "'a b'"])
        else:
            v = kw_value(rng)
        out.append(f'{k} = {v}')
    return ', '.join(out)


MULTILINE_INNER = [
    "select a,\n       b\nfrom t",
    "select *\n\nfrom t\nwhere a = 1",
    "select *\n  -- only a comment here\nfrom t",
    "select * /* c1 */\nfrom t\n\n\n  where b > 2",
    "\n  select 1\n",
    "select *\nfrom t -- trailing\nwhere x = 'a'",
]


def raw_inner(rng):
    """Inner text for embedded raw queries."""
    if rng.random() < 0.2:
        return rng.choice(MULTILINE_INNER)
    return rng.choice([
        'select * from t', "select a, b from tbl where c = 'x'", 'SELECT col1 FROM db.tbl WHERE x > 10 LIMIT 5',
        "select * from t where name = 'o''k'", 'select (a + b) * 2 as c from t', 'select 1',
        'select * from t1 join t2 on t1.a = t2.a', "select * from t where d > '2020-01-01' and e in (1, 2)",
    ])


def mindsdb_statement(rng):
    """(kind, text) for one random mindsdb-dialect statement; covers every statement family."""
    K = rng.choice(KINDS)
    return K, _STMT[K](rng)


def _ine(rng):
    return rng.choice(['', '', 'IF NOT EXISTS '])


def _ie(rng):
    return rng.choice(['', '', 'IF EXISTS '])


def _rep(rng):
    return rng.choice(['', '', 'OR REPLACE '])


def _create_model(rng):
    kw = rng.choice(['MODEL', 'PREDICTOR'])
    name = path(rng, 2, 0)
    s = f'CREATE {_rep(rng) if kw == "MODEL" else ""}{kw} {_ine(rng)}{name}'
    if rng.random() < 0.8:
        s += f' FROM {ident(rng, 0)} ({raw_inner(rng)})'
    s += f' PREDICT {ident(rng, 0)}'
    if rng.random() < 0.3:
        s += f' ORDER BY {ident(rng, 0)}'
        if rng.random() < 0.5:
            s += f' GROUP BY {ident(rng, 0)}'
        s += f' WINDOW {rng.choice(INT_SLOT)}'
        if rng.random() < 0.5:
            s += f' HORIZON {rng.choice(INT_SLOT)}'
    if rng.random() < 0.5:
        s += ' USING ' + kw_params(rng, n=2)
    return s


def _job(rng):
    s = f'CREATE JOB {_ine(rng)}{path(rng, 2, 0)} {rng.choice(["", "AS "])}({raw_inner(rng)}'
    if rng.random() < 0.3:
        s += '; ' + raw_inner(rng)
    s += ')'
    if rng.random() < 0.5:
        s += " START '2023-01-01'"
    if rng.random() < 0.4:
        s += " END '2024-01-01'"
    if rng.random() < 0.6:
        s += rng.choice([" EVERY hour", " EVERY 2 days", " EVERY '1 day'", " EVERY 0 days", " EVERY 10 min"])
    if rng.random() < 0.3:
        s += f' IF ({raw_inner(rng)})'
    return s


def _create_table(rng):
    name = table(rng)
    if rng.random() < 0.4:
        return f'CREATE {_rep(rng)}TABLE {_ine(rng)}{name} {rng.choice(["", "("])}' + (
            lambda s: s)(select(rng, 1, True)) + ''
    cols = []
    for i in range(rng.randint(1, 3)):
        c = f'{rng.choice(PLAIN_IDS)}{i} {rng.choice(TYPES)}'
        r = rng.random()
        if r < 0.15:
            c += '(10)'
        elif r < 0.3:
            c += ' DEFAULT x'
        elif r < 0.34:
            c += '(10) DEFAULT x'
        elif r < 0.4:
            c += ' PRIMARY KEY'
        if rng.random() < 0.2:
            c += rng.choice([' NULL', ' NOT NULL'])
        cols.append(c)
    return f'CREATE {_rep(rng)}TABLE {_ine(rng)}{name} ({", ".join(cols)})'


def _fix_create_table(rng):
    s = _create_table(rng)
    # balance the optional parenthesis of CREATE TABLE t (select ...)
    if s.count('(') > s.count(')'):
        s += ')'
    return s


def _insert(rng):
    t = table(rng)
    cols = ''
    n = rng.randint(1, 3)
    if rng.random() < 0.7:
        cols = ' (' + ', '.join(rng.sample(PLAIN_IDS, n)) + ')'
        if rng.random() < 0.25:
            # column names that need their quotes (in the column LIST, which has printers and readers of its own)
            cols = ' (' + ', '.join(rng.sample(QUOTED_IDS + PLAIN_IDS[:3], n)) + ')'
    if rng.random() < 0.6:
        rows = ', '.join('(' + ', '.join(const(rng) for _ in range(n)) + ')' for _ in range(rng.randint(1, 2)))
        return f'INSERT INTO {t}{cols} VALUES {rows}'
    return f'INSERT INTO {t}{cols} {select(rng, 1, True)}'


def _update(rng):
    t = table(rng)
    sets = ', '.join(f'{c} = {expr(rng, 1)}' for c in rng.sample(PLAIN_IDS, rng.randint(1, 2)))
    r = rng.random()
    if r < 0.15:
        return f'UPDATE {t} SET {sets} FROM ({select(rng, 1, True)}) AS {ident(rng, 0)} WHERE {expr(rng, 1, True)}'
    if r < 0.25:
        return f'UPDATE {t} ON {ident(rng, 0)}, {ident(rng, 0)} FROM ({select(rng, 1, True)})'
    if r < 0.8:
        return f'UPDATE {t} SET {sets} WHERE {expr(rng, 1, True)}'
    return f'UPDATE {t} SET {sets}'


def _show(rng):
    cat = rng.choice(['TABLES', 'DATABASES', 'MODELS', 'PREDICTORS', 'JOBS', 'ML_ENGINES', 'HANDLERS', 'VIEWS', 'SCHEMAS',
                      'FULL TABLES', 'VARIABLES', 'SESSION STATUS', 'GLOBAL VARIABLES', 'COLUMNS', 'INDEXES', 'WARNINGS',
                      'ENGINES', 'CHARSET', 'CHARACTER SET', 'COLLATION', 'PLUGINS', 'KNOWLEDGE_BASES', 'TRIGGERS',
                      'FUNCTION STATUS', 'PROCEDURE STATUS', 'TABLE STATUS', 'PROCESSLIST', 'FULL PROCESSLIST',
                      'CHATBOTS', 'AGENTS', 'SKILLS', 'FULL COLUMNS', 'EXTENDED FULL TABLES', 'ML_ENGINES', 'DATASOURCES',
                      'SLAVE STATUS', 'REPLICA STATUS', 'CREATE TABLE t', 'MASTER STATUS', 'BINARY LOGS', 'PRIVILEGES',
                      'EXTENDED COLUMNS', 'ENGINE x STATUS', 'FUNCTION CODE f', 'CHARSET', 'SLAVE HOSTS'])
    s = 'SHOW ' + cat
    if cat.startswith(('SLAVE', 'REPLICA')):
        if rng.random() < 0.5:
            s += ' FOR CHANNEL ch'
        return s
    if cat.startswith('CREATE'):
        return s
    if rng.random() < 0.35:
        s += f' {rng.choice(["FROM", "IN"])} {ident(rng, 0)}'
        if rng.random() < 0.2:
            s += f' {rng.choice(["FROM", "IN"])} {ident(rng, 0)}'
    r = rng.random()
    if r < 0.25:
        s += f" LIKE {rng.choice(STRINGS)}"
    elif r < 0.5:
        s += f' WHERE {expr(rng, 1, True, subq=False)}'
    return s


def _set(rng):
    return rng.choice([
        lambda: f'SET {ident(rng, 0)} = {expr(rng, 1)}',
        lambda: f'SET @{rng.choice(PLAIN_IDS)} = {expr(rng, 1)}',
        lambda: f'SET @@{rng.choice(["session", "global"])}.{rng.choice(PLAIN_IDS)} = {const(rng)}',
        lambda: f'SET {rng.choice(["GLOBAL", "SESSION", "PERSIST", "PERSIST_ONLY"])} {ident(rng, 0)} = {const(rng)}',
        lambda: f'SET NAMES {rng.choice(["utf8", "utf8mb4", chr(39) + "utf8" + chr(39)])}',
        lambda: f"SET NAMES 'utf8' COLLATE {rng.choice(['utf8_general_ci', chr(39) + 'utf8_bin' + chr(39)])}",
        lambda: f'SET {rng.choice(["GLOBAL", "SESSION", "PERSIST_ONLY"])} @{rng.choice(PLAIN_IDS[:3])} = {const(rng)}',
        lambda: f'SET {ident(rng, 0)} {rng.choice(STRINGS[:4] + INTS[:3])}',
        lambda: f'SET TRANSACTION ISOLATION LEVEL READ COMMITTED',
        # several assignments in one SET, scopes repeated / changing / absent from item to item
        lambda: 'SET ' + ', '.join(f'{rng.choice(["GLOBAL ", "SESSION ", "", "GLOBAL ", "PERSIST "])}{rng.choice(PLAIN_IDS)} = {const(rng)}' for _ in range(rng.randint(2, 4))),
        lambda: 'SET ' + ', '.join(rng.choice([f'@{rng.choice(PLAIN_IDS)} = {const(rng)}', f'@@{rng.choice(["session", "global"])}.{rng.choice(PLAIN_IDS)} = {const(rng)}',
                                               f'GLOBAL {rng.choice(PLAIN_IDS)} = {const(rng)}']) for _ in range(rng.randint(2, 3))),
        lambda: f"SET NAMES utf8 COLLATE {rng.choice(['utf8_general_ci', chr(39) + 'utf8_bin' + chr(39)])}",
        lambda: f'SET {rng.choice(["CHARSET", "CHARACTER SET"])} {rng.choice(["utf8", chr(39) + "utf8" + chr(39), "DEFAULT"])}',
        lambda: f'SET autocommit, sql_mode = {const(rng)}' if False else f'SET autocommit = 1, sql_mode = {const(rng)}',
        lambda: f'SET {rng.choice(["", "GLOBAL ", "SESSION "])}TRANSACTION {rng.choice(["ISOLATION LEVEL REPEATABLE READ", "ISOLATION LEVEL READ COMMITTED", "ISOLATION LEVEL SERIALIZABLE", "READ WRITE", "READ ONLY", "ISOLATION LEVEL READ UNCOMMITTED, READ ONLY"])}',
        lambda: f'SET search_path TO x' if False else f'SET names {ident(rng, 0)}',
    ])()


UOPS = ['UNION', 'UNION ALL', 'INTERSECT', 'EXCEPT', 'INTERSECT ALL', 'EXCEPT ALL']


def _union(rng):
    s = f'{select(rng, 1, True)} {rng.choice(UOPS)} {select(rng, 1, True)}'
    k = rng.random()
    if k < 0.4:
        s += f' {rng.choice(UOPS)} {select(rng, 0, True)}'
    elif k < 0.55:
        # operands in parentheses: a nested set operation on the right / on the left / on both sides, a parenthesised plain select
        a, b, c = select(rng, 0, True), select(rng, 0, True), select(rng, 0, True)
        o1, o2 = rng.choice(UOPS), rng.choice(UOPS)
        s = rng.choice([f'{a} {o1} ({b} {o2} {c})', f'({a} {o1} {b}) {o2} {c}', f'({a} {o1} {b}) {o2} ({c} {o1} {a})', f'{a} {o1} ({b})',
                        f'{a} {o1} ({b} {o2} ({c} {o1} {a}))', f'{a} {o1} ({b} {o2} {c}) {o2} {a}'])
    r = rng.random()
    if r < 0.1:
        return f'({s})'
    if r < 0.2:
        return f'INSERT INTO {table(rng)} {s}'
    if r < 0.3:
        return f'WITH u AS ({s}) SELECT * FROM u'
    if r < 0.4:
        return f'SELECT * FROM ({s}) AS u'
    return s


def _cte(rng):
    n1 = ident(rng, 0)
    s = f'WITH {n1} AS ({select(rng, 1, True)})'
    if rng.random() < 0.3:
        s += f', {ident(rng, 0)}2 AS ({select(rng, 0, True)})'
    return f'{s} SELECT * FROM {n1}' + (f' WHERE {expr(rng, 1, True, subq=False)}' if rng.random() < 0.5 else '')


def _window(rng):
    w = []
    if rng.random() < 0.7:
        w.append('PARTITION BY ' + path(rng, 2))
    if rng.random() < 0.7:
        w.append('ORDER BY ' + path(rng, 2) + rng.choice(['', ' DESC']))
    f = rng.choice(['row_number()', 'rank()', f'sum({path(rng, 1)})', f'lag({path(rng, 1)}, 1)'])
    if rng.random() < 0.15:
        f = '(' + f + ')'          # accepted by the grammar: the function part is an expression
    mod = ''
    if rng.random() < 0.2 and w:
        mod = ' ROWS BETWEEN UNBOUNDED PRECEDING AND CURRENT ROW'
    return f'SELECT {f} OVER ({" ".join(w)}{mod}){rng.choice(["", " AS rn"])} FROM {table(rng)}'


def _native(rng):
    return f'SELECT * FROM {ident(rng, 0)} ({raw_inner(rng)}){rng.choice(["", " AS t", " t"])}' + (
        f' WHERE {expr(rng, 1, True, subq=False)}' if rng.random() < 0.3 else '')


def _model_join(rng):
    m = rng.choice(['mindsdb.pred', 'proj.model1', 'mindsdb.pred.3', 'pred'])
    s = f'SELECT {rng.choice(["*", "t.a, m.p", "m.*"])} FROM {table(rng)} AS t JOIN {m} AS m'
    if rng.random() < 0.5:
        s += f' WHERE t.a {rng.choice([">", ">="])} {rng.choice(["LATEST", "LAST", "1", chr(39) + "2020-01-01" + chr(39)])}'
    if rng.random() < 0.3:
        s += ' LIMIT 10'
    if rng.random() < 0.3:
        s += ' USING ' + kw_params(rng, n=1)
    return s


_STMT = {
    'select': lambda r: select(r, 2),
    'select_simple': lambda r: select(r, 1, True),
    'select_expr': lambda r: 'SELECT ' + ', '.join(expr(r, 3) for _ in range(r.randint(1, 2))),
    'union': _union,
    'cte': _cte,
    'window': _window,
    'native_query': _native,
    'model_join': _model_join,
    'select_using': lambda r: f'{select(r, 1, True)} USING {kw_params(r, n=2)}',
    'select_for_update': lambda r: f'SELECT * FROM {table(r)} WHERE {expr(r, 1, True)} FOR UPDATE',
    'select_limit_comma': lambda r: f'SELECT * FROM {table(r)} LIMIT {r.choice([0, 0, 2, 7])}, {r.choice([0, 5, 10])}',
    'insert': _insert,
    'update': _update,
    'delete': lambda r: f'DELETE FROM {table(r)}' + (f' WHERE {expr(r, 2, True)}' if r.random() < 0.85 else ''),
    'create_table': _fix_create_table,
    'drop_table': lambda r: f'DROP TABLE {_ie(r)}{table(r)}',
    'drop_view': lambda r: f'DROP VIEW {_ie(r)}{path(r, 2, 0)}' + (f', {ident(r, 0)}' if r.random() < 0.3 else ''),
    'drop_database': lambda r: f'DROP {r.choice(["DATABASE", "PROJECT", "SCHEMA"])} {_ie(r)}{ident(r, 0)}',
    'show': _show,
    'set': _set,
    'use': lambda r: f'USE {ident(r, 0.2)}',
    'describe': lambda r: r.choice([
        f'DESCRIBE {path(r, 2, 0)}', f'DESCRIBE {r.choice(["JOB", "SKILL", "CHATBOT", "TRIGGER", "KNOWLEDGE_BASE", "PROJECT", "ML_ENGINE", "MODEL", "AGENT"])} {path(r, 2, 0)}']),
    'explain': lambda r: f'EXPLAIN {path(r, 2, 0)}',
    'transaction': lambda r: r.choice(['START TRANSACTION', 'BEGIN', 'COMMIT', 'ROLLBACK', 'begin', 'commit']),
    'alter_table': lambda r: f'ALTER TABLE {path(r, 2, 0)} {r.choice(["disable", "enable"])} keys',
    'create_model': _create_model,
    'anomaly_model': lambda r: f'CREATE ANOMALY DETECTION MODEL {path(r, 2, 0)}' + r.choice([
        '', f' FROM {ident(r, 0)} ({raw_inner(r)})', f' PREDICT {ident(r, 0)}',
        f' FROM {ident(r, 0)} ({raw_inner(r)}) PREDICT {ident(r, 0)}', f' PREDICT {ident(r, 0)} FROM {ident(r, 0)} ({raw_inner(r)})']) + (f' USING {kw_params(r, n=1)}' if r.random() < 0.4 else ''),
    'retrain': lambda r: f'RETRAIN {r.choice(["", "MODEL "])}{path(r, 2, 0)}' + r.choice([
        '', f' FROM {ident(r, 0)} ({raw_inner(r)})', f' FROM ({raw_inner(r)})', f' PREDICT {ident(r, 0)}',
        f' FROM ({raw_inner(r)}) PREDICT {ident(r, 0)}', f' FROM {ident(r, 0)} ({raw_inner(r)}) PREDICT {ident(r, 0)}, {ident(r, 0)}']) + (
        f' USING {kw_params(r, n=1)}' if r.random() < 0.4 else ''),
    'finetune': lambda r: f'FINETUNE {r.choice(["", "MODEL "])}{path(r, 2, 0)} FROM {r.choice(["", ident(r, 0) + " "])}({raw_inner(r)})' + (
        f' USING {kw_params(r, n=1)}' if r.random() < 0.4 else ''),
    'evaluate': lambda r: f'EVALUATE {ident(r, 0)} FROM ({raw_inner(r)})' + (f' USING {kw_params(r, n=1)}' if r.random() < 0.4 else ''),
    'drop_model': lambda r: f'DROP {r.choice(["MODEL", "PREDICTOR"])} {_ie(r)}{path(r, 2, 0)}',
    'create_database': lambda r: f'CREATE {_rep(r)}DATABASE {_ine(r)}{ident(r, 0)}' + r.choice([
        '', " ENGINE 'pg'", " ENGINE = 'pg'", " WITH ENGINE 'mysql'", " WITH ENGINE = 'mysql'", " USING ENGINE = 'x'"]) + r.choice([
        '', ', PARAMETERS = {"a": 1}', ', PARAMETERS {"a": [1, 2.5, true, null]}', " PARAMETERS {'user': 'u', \"port\": 5432, 'n': {'k': [1, 2]}}", ' PARAMETERS = {}']),
    'create_project': lambda r: f'CREATE {_rep(r)}PROJECT {_ine(r)}{ident(r, 0)}',
    'drop_datasource': lambda r: f'DROP {r.choice(["DATASOURCE", "DATASET"])} {_ie(r)}{ident(r, 0)}',
    'create_ml_engine': lambda r: f'CREATE ML_ENGINE {_ine(r)}{ident(r, 0)} FROM {ident(r, 0)}' + (f' USING {kw_params(r, n=1)}' if r.random() < 0.5 else ''),
    'drop_ml_engine': lambda r: f'DROP ML_ENGINE {_ie(r)}{ident(r, 0)}',
    'create_view': lambda r: f'CREATE VIEW {_ine(r)}{path(r, 2, 0)}{r.choice(["", " FROM " + ident(r, 0)])}{r.choice([" AS", ""])} ({raw_inner(r)})',
    'create_job': _job,
    'drop_job': lambda r: f'DROP JOB {_ie(r)}{path(r, 2, 0)}',
    'create_trigger': lambda r: f'CREATE TRIGGER {path(r, 2, 0)} ON {path(r, 2, 0)}{r.choice(["", " COLUMNS a, b"])} ({raw_inner(r)})',
    'drop_trigger': lambda r: f'DROP TRIGGER {path(r, 2, 0)}',
    'create_chatbot': lambda r: f'CREATE CHATBOT {path(r, 2, 0)} USING {kw_params(r, required=["database"] + r.choice([["model"], ["agent"], []]))}',
    'update_chatbot': lambda r: f'UPDATE CHATBOT {path(r, 2, 0)} SET {kw_params(r, n=2)}',
    'drop_chatbot': lambda r: f'DROP CHATBOT {path(r, 2, 0)}',
    'create_agent': lambda r: f'CREATE AGENT {_ine(r)}{path(r, 2, 0)} USING {kw_params(r, required=r.choice([["model"], ["model", "skills"]]))}',
    'update_agent': lambda r: f'UPDATE AGENT {path(r, 2, 0)} SET {kw_params(r, n=2)}',
    'drop_agent': lambda r: f'DROP AGENT {_ie(r)}{path(r, 2, 0)}',
    'create_skill': lambda r: f'CREATE SKILL {_ine(r)}{path(r, 2, 0)} USING {kw_params(r, required=["type"])}',
    'update_skill': lambda r: f'UPDATE SKILL {path(r, 2, 0)} SET {kw_params(r, n=2)}',
    'drop_skill': lambda r: f'DROP SKILL {_ie(r)}{path(r, 2, 0)}',
    'create_kb': lambda r: f'CREATE KNOWLEDGE_BASE {_ine(r)}{path(r, 2, 0)}' + r.choice([
        '', f' FROM ({select(r, 1, True)})']) + r.choice([
        ' USING model = mymodel, storage = db.tbl', ' USING MODEL = m, STORAGE = s.t, opt = 1', '', ' USING storage = s.t']),
    'drop_kb': lambda r: f'DROP KNOWLEDGE_BASE {_ie(r)}{path(r, 2, 0)}',
}
KINDS = sorted(_STMT)


# ----------------------------------------------------------------------------------------
# token-level mutations
# ----------------------------------------------------------------------------------------

GARBAGE = ['x y', 'foo bar baz', ')', '(', ',', '1 2', 'select', 'from', 'where and', "'str'", '= =', 'x y ;', '; ;',
           '@', 'a.', '.b', 'not', '*', 'null null']


COMMENTS = ['/**/', '/***/', '/** x **/', '/* a * b */', '/* / */', '/*/ x */', '-- c\n', '--\n', '/* multi\n line */', '/* -- */',
            "/* ' */", '/* " */', "-- ' \n", '/* ; */', '/*\n*/', '/* x */ /* y */', '/****/', '/* */ */']
NUMBER_EDGES = ['1.5e', '1e5', '1E-3', '.5', '5.', '0x1F', '1_000', '00', '007', '1.2.3', '9' * 25, '0.30000000000000004', '1e', '1.e5',
                '1..2', '12345678901234567890.123456789012345678', '0.1000000000000000055511151231257827', '1.0else', '2.5E+10',
                '123456789.12345678', '0.000001', '0.0000001', '1e-7', '9007199254740993', '1.7976931348623157e308', '1e999', '-0', '+1']


# one spelling for every alternative a lexer offers for its value tokens (variables in all quotings, numbers, the three string
# quotings with a doubled quote inside, parameters, comments of every style, prefixed literals of other SQL flavours)
LEXEME_FORMS = ['@@global.a.b', '@a.b.c', '@@a.b.c.d', '@@`a.b`.c', "@@'g.h'", '@@.', '@.', '@@a.', '@v', "@'v'", '@"v"', '@`v`', '@@v', "@@'v'", '@@"g.v"', '@@`v`', '@a.b', '@$x', '@@session.v', "@'a b'", '@"a.b"', "@''", '@',
                '0x1F', '1e5', '.5', '5.', '1.e3', "'a''b'", '"a""b"', '`a``b`', '$1', ':name', '?', '#c\n', '--c\n', '/*c*/', '\\N', "N'x'", "X'00'",
                "b'01'", "_utf8'x'", '$$x$$', "@'x\ny'", '@"a\nb"', '@`a\nb`', "@@'x\ny'", "'a\nb'", '"a\nb"', '`a\nb`', "@'x\r\ny'", "'\n'", '@"\n"', "E'x'", '[a]', '{a}', '%s', '%(n)s', '::', ':=', '->', '->>', '<=>', '!', '\\', '..', "''", '""', '``']


def mutate(text, toks, rng, vocab):
    """One token-level mutation of `text` whose lexer tokens are `toks` (type, value, index, end, lineno).
    Returns (label, new_text)."""
    if not toks:
        return 'garbage', rng.choice(GARBAGE)
    k = rng.choice(['delete', 'dup', 'replace', 'insert', 'truncate', 'prefix', 'suffix', 'infix', 'swap', 'concat_garbage',
                    'concat_stmt', 'unbalance', 'glue', 'relayout', 'comment', 'numedge', 'concat_long', 'comment_sandwich', 'stray_lexeme', 'lexeme_for_value', 'inner_blank', 'semicolon_tail'])
    i = rng.randrange(len(toks))
    t = toks[i]
    piece = text[t[2]:t[3]]
    # lexer-level mutations: the text between two tokens, or the spelling of a number
    if k in ('glue', 'relayout', 'comment', 'comment_sandwich') and len(toks) > 1:
        j = rng.randrange(len(toks) - 1)
        a, b = toks[j], toks[j + 1]
        if k == 'comment_sandwich':
            # text that is NOT a comment, between two comments whose delimiters invite a lexer to run them together
            first = rng.choice(['/** x **/', '/* x **/', '/*** x ***/', '/*/ x */', '/* x */', '/* * */', '/**/', '-- c\n', '/* \n **/'])
            last = rng.choice(['/* y */', '/** y **/', '-- y', '/* y\n */', '/**/'])
            return k, text[:a[3]] + ' ' + first + ' ' + rng.choice(GARBAGE) + ' ' + last + ('\n' if last.startswith('--') else ' ') + text[b[2]:]
        if k == 'glue':
            return k, text[:a[3]] + text[b[2]:]
        if k == 'relayout':
            return k, text[:a[3]] + rng.choice(['\n', '\r\n', '\t', '\n\n   ', ' \n', '\r', '\n\t\n']) + text[b[2]:]
        return k, text[:a[3]] + ' ' + rng.choice(COMMENTS) + ' ' + text[b[2]:]
    if k == 'numedge':
        nums = [x for x in toks if x[0] in ('INTEGER', 'FLOAT')]
        x = rng.choice(nums) if nums else t
        return k, text[:x[2]] + rng.choice(NUMBER_EDGES) + text[x[3]:]
    if k == 'inner_blank':
        # the blank INSIDE a multi-word token (ORDER BY, NOT IN, IS NOT, PRIMARY KEY ...) written as a line break / tab / several blanks
        multi = [x for x in toks if ' ' in text[x[2]:x[3]] and x[0] not in ('QUOTE_STRING', 'DQUOTE_STRING', 'ID')]
        if multi:
            x = rng.choice(multi)
            piece2 = text[x[2]:x[3]].replace(' ', rng.choice(['\n', '\t', '  ', '\r\n', '\n  ', ' \n']), 1)
            return k, text[:x[2]] + piece2 + text[x[3]:] + (' ' + rng.choice(GARBAGE) if rng.random() < 0.5 else '')
        return k, text + ' ' + rng.choice(GARBAGE)
    if k == 'stray_lexeme':
        # a value-like lexeme where the grammar expects none (between two tokens, blanks on both sides)
        return k, text[:t[3]] + ' ' + rng.choice(LEXEME_FORMS) + ' ' + text[t[3]:]
    if k == 'lexeme_for_value':
        vals = [x for x in toks if x[0] in ('INTEGER', 'FLOAT', 'QUOTE_STRING', 'DQUOTE_STRING', 'ID', 'VARIABLE', 'SYSTEM_VARIABLE', 'PARAMETER')]
        x = rng.choice(vals) if vals else t
        return k, text[:x[2]] + rng.choice(LEXEME_FORMS) + text[x[3]:]
    if k == 'semicolon_tail':
        # behind the statement's semicolon: comments with something between them, up to the very end of the text (what a tolerant
        # "strip the end of the statement" must not swallow)
        c1 = rng.choice(['/* first */', '/* a */', '-- c\n', '/**/', '/* x\n y */'])
        c2 = rng.choice(['/* second */', '/* b */', '/**/', '/* z */ ', '-- end', '/* q */;', '/* r */ ;\n'])
        mid = rng.choice(GARBAGE + ['drop view v', 'select 2', ', ,', ') (', 'x', text])
        return k, text + rng.choice([';', ' ;', ';;', '; ']) + ' ' + c1 + ' ' + mid + ' ' + c2
    if k == 'concat_long':
        return k, 'selec ' + ', '.join(f'c{n}' for n in range(rng.choice([30, 70, 130, 300]))) + ' from t1 ; ' + text
    if k == 'delete':
        return k, text[:t[2]] + text[t[3]:]
    if k == 'dup':
        return k, text[:t[3]] + ' ' + piece + text[t[3]:]
    if k == 'replace':
        return k, text[:t[2]] + rng.choice(vocab) + text[t[3]:]
    if k == 'insert':
        return k, text[:t[2]] + rng.choice(vocab) + ' ' + text[t[2]:]
    if k == 'truncate':
        return k, text[:t[2]]
    if k == 'prefix':
        return k, rng.choice(GARBAGE) + ' ' + text
    if k == 'suffix':
        return k, text + ' ' + rng.choice(GARBAGE)
    if k == 'infix':
        return k, text[:t[2]] + rng.choice(GARBAGE) + ' ' + text[t[2]:]
    if k == 'swap' and len(toks) > 1:
        j = rng.randrange(len(toks) - 1)
        a, b = toks[j], toks[j + 1]
        return k, text[:a[2]] + text[b[2]:b[3]] + text[a[3]:b[2]] + text[a[2]:a[3]] + text[b[3]:]
    if k == 'concat_garbage':
        return k, rng.choice(GARBAGE) + ' ; ' + text
    if k == 'concat_stmt':
        return k, text + ' ; ' + text
    if k == 'unbalance':
        return k, text.replace(')', '', 1) if rng.random() < 0.5 and ')' in text else '(' + text
    return 'delete', text[:t[2]] + text[t[3]:]


def keyword_vocab(lexer_cls):
    """Concrete lexemes for the token names of a lexer class (keywords and symbols)."""
    import re
    out = []
    for name in sorted(lexer_cls.tokens):
        pat = getattr(lexer_cls, name, None)
        if isinstance(pat, str):
            s = pat.replace('\\b', '')
            s = re.sub(r'\[\\s\]\+|\[_\|\\s\]', ' ', s)
            s = s.replace('\\', '')
            if re.fullmatch(r"[A-Za-z_ ]+|[^A-Za-z\s]{1,3}", s):
                out.append(s)
    out += ['x', '1', "'s'", '1.5', '`q`', '@v', '?']
    return out


# ----------------------------------------------------------------------------------------
# hostile lexemes: identifiers that need (or look as if they need) quoting
# ----------------------------------------------------------------------------------------

def hostile_identifiers(lexer_cls, reserved=()):
    """Deterministic list of identifier part texts: every token word of the lexer (also the multi-word /
    underscore tokens) in several spellings and decorated with $, digits, underscores; plus all strings of
    length <= 3 over a small hostile alphabet.  None contains a back-quote, so each can be written `x`."""
    import re as _re
    words = set()
    classes = lexer_cls if isinstance(lexer_cls, (list, tuple)) else [lexer_cls]
    for L in classes:
        for name in sorted(L.tokens):
            words.add(name.lower())
            if '_' in name:
                words.add(name.lower().replace('_', ' '))
            # words a token PATTERN matches beyond its name (e.g. `/|\bDIV\b`): they are keywords of that dialect too
            pat = getattr(L, name, None)
            if isinstance(pat, str):
                for w in _re.findall(r'\\b([A-Za-z_]{2,})\\b', pat):
                    words.add(w.lower())
    for w in reserved:
        words.add(str(w).lower())
    out = []
    for w in sorted(words):
        out += [w, w.upper(), w.capitalize(), w + '$1', w + '$', '$' + w, w + '1', w + '_x', '1' + w, w + ' x', w + '.x']
    alpha = ['a', 'B', '1', '$', '_', ' ', '-', '.', 'é']
    for a in alpha:
        out.append(a)
        for b in alpha:
            out.append(a + b)
            for c in alpha:
                out.append(a + b + c)
    seen, res = set(), []
    for x in out:
        if x == '' or x in seen:
            continue
        seen.add(x)
        res.append(x)
    return res


IDENT_POSITIONS = [
    'SELECT `{x}` FROM t',
    'SELECT a AS `{x}` FROM t',
    'SELECT * FROM `{x}`',
    'SELECT * FROM db.`{x}`',
    'SELECT `{x}`.`{x}` FROM t',
    'SELECT t.`{x}` FROM t AS `{x}`',
    'SELECT a FROM (SELECT 1) AS `{x}`',
    'INSERT INTO `{x}` (a) VALUES (1)',
    'UPDATE t SET a = `{x}` WHERE `{x}` = 1',
    'DROP TABLE `{x}`',
    'CREATE MODEL `{x}` PREDICT `{x}`',
    'USE `{x}`',
    # names in column LISTS (they have readers and printers of their own)
    'SELECT * FROM (SELECT 1, 2) AS t (`{x}`, c)',
    'INSERT INTO t (`{x}`, c) VALUES (1, 2)',
    'CREATE TRIGGER tr ON db.t COLUMNS `{x}`, c (select 1)',
]
# further positions, used where only termination / acceptance is judged (C02): function names, DESCRIBE / SHOW operands ... print
# such names unquoted, which is C01's business only for names a user would write (the positions above)
IDENT_POSITIONS_EXTRA = [
    'SELECT `{x}`(1) FROM t',
    'SELECT t.`{x}`(a, b) FROM t',
    'SELECT `{x}`(DISTINCT a) FROM t',
    'DESCRIBE `{x}` `{x}`',
    'DESCRIBE `{x}`',
    'SHOW TABLES FROM `{x}`',
    'SELECT a FROM t ORDER BY `{x}` DESC',
    'SELECT a FROM t GROUP BY `{x}` HAVING `{x}` > 1',
    'SELECT * FROM t JOIN `{x}` ON t.a = `{x}`.a',
    'DELETE FROM `{x}` WHERE `{x}` = 1',
    'CREATE TABLE `{x}` (a int)',
    'DROP MODEL `{x}`',
    'SELECT * FROM `{x}` (select 1)',
    'CREATE VIEW `{x}` (select 1)',
    'SET `{x}` = 1',
    'SET `{x}` = 1',
]
