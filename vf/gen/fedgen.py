"""Federated workloads for the planner properties: catalogs (integrations as names or dicts, projects, api
integrations, predictor metadata as list or legacy dict, time-series settings, default namespace), multi-integration
queries (via selgen with integration qualifiers), table-model joins, time-series joins and DML/DDL forms."""
import copy

from vf.gen import selgen

HOME = {'t1': 'int1', 't2': 'int2', 't3': 'int1', 'newt': 'int2'}

MODELS = [
    {'name': 'm1', 'integration_name': 'mindsdb', 'timeseries': False, 'to_predict': ['y']},
    {'name': 'm2', 'integration_name': 'proj', 'timeseries': False, 'to_predict': 'target'},
    # names that begin with digits (a version suffix is a last part made of digits only - `7days` is a name, not a version)
    {'name': '7days', 'integration_name': 'mindsdb', 'timeseries': False, 'to_predict': ['y']},
    {'name': '2024_churn', 'integration_name': 'proj', 'timeseries': False, 'to_predict': 'target'},
    {'name': 'ts1', 'integration_name': 'mindsdb', 'timeseries': True, 'window': 3, 'order_by_column': 'ts', 'group_by_columns': ['g']},
    {'name': 'ts0', 'integration_name': 'mindsdb', 'timeseries': True, 'window': 2, 'order_by_column': 'ts', 'group_by_columns': []},
    {'name': 'ts2', 'integration_name': 'mindsdb', 'timeseries': True, 'window': 4, 'order_by_column': 'ts', 'group_by_columns': ['g', 'h']},
    {'name': 'ts3', 'integration_name': 'mindsdb', 'timeseries': True, 'window': 2, 'order_by_column': 'ts', 'group_by_columns': ['gts']},
]


def catalog(rng, form=None):
    """kwargs for plan_query / QueryPlanner plus a description."""
    form = form if form is not None else rng.randrange(6)
    ints = ['int1', 'int2', 'int3']
    desc = {'form': form}
    if form in (0, 3):
        integrations = list(ints)
        desc['integrations'] = 'names'
    else:
        integrations = [{'name': n, 'type': 'data'} for n in ints]
        desc['integrations'] = 'dicts'
        # optional keys of a catalog record: absent, given, or given as None
        for rec in integrations:
            ct = rng.choice(['absent', 'absent', 'sql', None])
            if ct != 'absent':
                rec['class_type'] = ct
        desc['class_types'] = [rec.get('class_type', 'absent') for rec in integrations]
        if form == 2:
            integrations.append({'name': 'api1', 'type': 'data', 'class_type': 'api'})
            integrations.append({'name': 'proj', 'type': 'project'})
            desc['api'] = True
        if form == 4:
            integrations += [{'name': 'files', 'type': 'data'}, {'name': 'views', 'type': 'data'}]
    models = copy.deepcopy(MODELS)
    if form in (1, 5):
        # keys of its own that a catalog record may carry (the statement decides which version is meant, not the catalog)
        for m in models:
            m.update({'version': rng.choice(['9', 9, None]), 'id': 17, 'active': True, 'engine': 'e'})
        for rec in integrations:
            if isinstance(rec, dict):
                rec.update({'id': 3, 'engine': 'postgres', 'connection_data': {'host': 'h'}})
        desc['extra_record_keys'] = True
    if form in (3, 5):
        pm = {m['name']: m for m in models}        # legacy dict
        desc['predictors'] = 'legacy-dict'
    else:
        pm = models
        desc['predictors'] = 'list'
    kw = dict(integrations=integrations, predictor_metadata=pm)
    if form in (1, 2, 5):
        kw['default_namespace'] = rng.choice(['mindsdb', 'int1'])
        desc['default_namespace'] = kw['default_namespace']
    if form == 0 and rng.random() < 0.5:
        kw['predictor_namespace'] = 'mindsdb'
    return kw, desc


def qual_multi(t):
    return f'{HOME.get(t, "int1")}.{t}'


def qual_single(t):
    return f'int1.{t}'


def fed_query(rng, single=False):
    g = selgen.Gen(rng, qual=qual_single if single else qual_multi)
    g.nested_with = single          # WITH clauses of nested queries: one integration can run them as they are
    text, ordered = g.query()
    return text, ordered, g.features


def api_select(rng):
    """Selects from an integration of the API kind: filters, a total order with a row limit that really cuts, alone and joined."""
    r = rng
    w = r.choice(['', ' WHERE p.a > 0', ' WHERE p.a IS NOT NULL', ' WHERE p.id > 1'])
    o = r.choice([' ORDER BY p.a DESC, p.id', ' ORDER BY p.id DESC', ' ORDER BY p.b, p.id', ' ORDER BY p.a, p.id DESC', ''])
    lim = r.choice([' LIMIT 2', ' LIMIT 1', ' LIMIT 3 OFFSET 1', '']) if o else ''
    if r.random() < 0.7:
        return f'SELECT p.id AS id, p.a AS a, p.b AS b FROM api1.t1 AS p{w}{o}{lim}'
    return f'SELECT p.id AS id, p.a AS a, q.id AS id_q FROM api1.t1 AS p JOIN int2.t2 AS q ON p.id = q.id{w}{o.replace(", p.id", ", p.id, q.id") if o else ""}{lim}'


def sibling_ctes(rng):
    """The same CTE name defined in two sibling nested queries (each name is local to its own query)."""
    r = rng
    n = r.choice(['c', 'cte1', 'Recent'])
    f1, f2 = r.choice(['s.id > 1', 's.a IS NOT NULL', 's.id < 4']), r.choice(['s.id > 2', 's.a > 0', 's.id != 1'])
    a = f'(WITH {n} AS (SELECT s.id AS id, s.a AS a FROM int1.t1 AS s WHERE {f1}) SELECT x.id AS id, x.a AS a FROM {n} AS x) AS p'
    b = f'(WITH {n} AS (SELECT s.id AS id, s.a AS a FROM int2.t2 AS s WHERE {f2}) SELECT x.id AS id, x.a AS a FROM {n} AS x) AS q'
    return r.choice([f'SELECT p.id AS id_p, p.a AS a_p, q.id AS id_q, q.a AS a_q FROM {a} JOIN {b} ON p.id = q.id',
                     f'SELECT p.id AS id_p, p.a AS a_p FROM {a} WHERE p.id IN (SELECT q.id FROM {b})',
                     f'SELECT p.id AS id, p.a AS a FROM {a} UNION ALL SELECT q.id AS id, q.a AS a FROM {b}'])


def derived_join(rng):
    """A nested select (star or explicit columns; with a filter, a row limit after a total order, an offset) joined with a table of
    another integration, and filters of the outer query on the nested select's columns: they apply to its RESULT."""
    r = rng
    t1, t2 = r.choice([('t1', 't2'), ('t2', 't1')])
    tail = r.choice(['', 'WHERE id > 1', 'ORDER BY id LIMIT 2', 'ORDER BY id DESC LIMIT 3', 'ORDER BY id LIMIT 2 OFFSET 1', 'WHERE a IS NOT NULL ORDER BY id LIMIT 2',
                     'ORDER BY a DESC, id LIMIT 2'])
    cols = r.choice(['*', '*', 'id, a', 'id AS id, a AS a'])
    sub = f'(SELECT {cols} FROM {HOME[t1]}.{t1} {tail})'.replace(' )', ')')
    frm = f'{sub} AS p {r.choice(["JOIN", "LEFT JOIN", "INNER JOIN"])} {HOME[t2]}.{t2} AS q ON p.id = q.id'
    if r.random() < 0.3:
        frm = f'{HOME[t2]}.{t2} AS q {r.choice(["JOIN", "LEFT JOIN"])} {sub} AS p ON p.id = q.id'
    conds = [r.choice(['p.a > 0', 'p.a = 1', 'p.id > 1', 'p.a IS NOT NULL', 'p.id != 2', '1 < p.id'])]
    if r.random() < 0.4:
        conds.append(r.choice(['q.a >= 0', 'q.id < 4', 'q.a IS NOT NULL']))
    return f'SELECT p.id AS id_p, p.a AS a_p, q.id AS id_q, q.a AS a_q FROM {frm} WHERE ' + ' AND '.join(conds)


def const_first(rng):
    """Joins across integrations whose WHERE compares value-first (`2 >= p.a`), with every operator, on either table."""
    r = rng
    t1, t2 = r.choice([('t1', 't2'), ('t2', 't1'), ('t1', 't3'), ('t3', 't2')])
    c1, c2 = ('x' if t1 == 't3' else 'a'), ('x' if t2 == 't3' else 'a')
    frm = f'{HOME[t1]}.{t1} AS p {r.choice(["JOIN", "LEFT JOIN", "INNER JOIN"])} {HOME[t2]}.{t2} AS q ON p.id = q.id'
    ops = ['<', '<=', '>', '>=', '=', '!=', '<>']
    conds = [f'{r.choice([0, 1, 2, 3])} {r.choice(ops)} {r.choice([("p", c1), ("q", c2), ("p", "id")])[0]}.{r.choice([c1 if True else c2, "id"])}']
    al, c = r.choice([('p', c1), ('q', c2)])
    conds = [f'{r.choice([0, 1, 2, 3])} {r.choice(ops)} {al}.{r.choice([c, "id"])}']
    if r.random() < 0.5:
        al2, c_2 = r.choice([('p', c1), ('q', c2)])
        conds.append(r.choice([f'{al2}.{c_2} {r.choice(ops)} {r.choice([1, 2])}', f'{r.choice([1, 2, 3])} {r.choice(ops)} {al2}.id']))
    r.shuffle(conds)
    return f'SELECT p.id AS id_p, p.{c1} AS v_p, q.id AS id_q, q.{c2} AS v_q FROM {frm} WHERE ' + ' AND '.join(conds)


def join_chain(rng):
    """Three tables of alternating integrations joined in a chain, each ON clause linking the new table to the one before it - so
    the columns on the already-fetched side of two ON clauses have the SAME name on DIFFERENT tables (`q.a = p.id`, `s.x = q.id`)."""
    r = rng
    j1, j2 = r.choice(['JOIN', 'LEFT JOIN', 'INNER JOIN']), r.choice(['JOIN', 'LEFT JOIN', 'JOIN'])
    on1 = r.choice(['q.a = p.id', 'p.id = q.a', 'q.id = p.id', 'q.a = p.a'])
    on2 = r.choice(['s.x = q.id', 'q.id = s.x', 's.id = q.id', 's.x = q.a', 's.id = q.a'])
    w = r.choice(['', '', ' WHERE p.id > 1', ' WHERE q.a IS NOT NULL', ' WHERE s.x < 5'])
    return f'SELECT p.id AS id_p, q.id AS id_q, q.a AS a_q, s.id AS id_s, s.x AS x_s FROM int1.t1 AS p {j1} int2.t2 AS q ON {on1} {j2} int1.t3 AS s ON {on2}{w}'


def cte_in_clause_subquery(rng):
    """A CTE over one integration read only from a sub-query of the HAVING / ORDER BY / select list / WHERE of a select over a plain
    table of another integration (the sub-query stays inside that table's fetch, or is planned on top - either way it must see the CTE)."""
    r = rng
    name = r.choice(['c', 'cte1', 'Recent'])
    k = r.choice(['having', 'having', 'order', 'where', 'target'])
    if r.random() < 0.6:
        # the CTE reads the main table's own integration; another integration appears elsewhere (the statement is not sent as a whole)
        body = r.choice(['SELECT s.id AS id, s.x AS a FROM int1.t3 AS s WHERE s.x IS NOT NULL', 'SELECT s.id AS id, s.x AS a FROM int1.t3 AS s'])
        extra = ' WHERE p.id IN (SELECT u.id FROM int2.t2 AS u)'
        if k == 'having':
            return f'WITH {name} AS ({body}) SELECT p.a AS a, count(*) AS n FROM int1.t1 AS p{extra} GROUP BY p.a HAVING count(*) >= (SELECT count(*) FROM {name} AS z WHERE z.a = 2)'
        if k == 'order':
            return f'WITH {name} AS ({body}) SELECT p.id AS id, p.a AS a FROM int1.t1 AS p{extra} ORDER BY p.a * (SELECT count(*) FROM {name} AS z), p.id LIMIT 3'
        if k == 'where':
            return f'WITH {name} AS ({body}) SELECT p.id AS id, p.a AS a FROM int1.t1 AS p{extra} AND p.a > (SELECT min(z.a) FROM {name} AS z)'
        return f'WITH {name} AS ({body}) SELECT p.id AS id, (SELECT max(z.a) FROM {name} AS z) AS m FROM int1.t1 AS p{extra}'
    body = r.choice(['SELECT s.id AS id, s.a AS a FROM int2.t2 AS s WHERE s.a IS NOT NULL', 'SELECT s.id AS id, s.a AS a FROM int2.t2 AS s'])
    if k == 'having':
        return f'WITH {name} AS ({body}) SELECT p.a AS a, count(*) AS n FROM int1.t1 AS p GROUP BY p.a HAVING count(*) >= (SELECT count(*) FROM {name} AS z WHERE z.a = 2)'
    if k == 'order':
        return f'WITH {name} AS ({body}) SELECT p.id AS id, p.a AS a FROM int1.t1 AS p ORDER BY p.a * (SELECT count(*) FROM {name} AS z), p.id LIMIT 3'
    if k == 'where':
        return f'WITH {name} AS ({body}) SELECT p.id AS id, p.a AS a FROM int1.t1 AS p WHERE p.a > (SELECT min(z.a) FROM {name} AS z)'
    return f'WITH {name} AS ({body}) SELECT p.id AS id, (SELECT max(z.a) FROM {name} AS z) AS m FROM int1.t1 AS p'


def subquery_in_on(rng):
    """A sub-query inside the ON clause of a join across integrations (IN / scalar comparison / EXISTS), reading either integration."""
    r = rng
    j = r.choice(['JOIN', 'LEFT JOIN', 'INNER JOIN'])
    sub_home = r.choice(['int1.t3', 'int2.t2', 'int1.t1'])
    col = {'int1.t3': 'x', 'int2.t2': 'a', 'int1.t1': 'a'}[sub_home]
    cond = r.choice([f'q.a IN (SELECT s.{col} FROM {sub_home} AS s)', f'p.a = (SELECT max(s.{col}) FROM {sub_home} AS s)',
                     f'q.id NOT IN (SELECT s.id FROM {sub_home} AS s WHERE s.{col} IS NOT NULL AND s.{col} > 2)',
                     f'p.id <= (SELECT count(*) FROM {sub_home} AS s)'])
    on = r.choice([f'p.id = q.id AND {cond}', f'{cond} AND p.id = q.id', cond])
    return f'SELECT p.id AS id_p, p.a AS a_p, q.id AS id_q, q.a AS a_q FROM int1.t1 AS p {j} int2.t2 AS q ON {on}'


def not_over_comparison(rng):
    """Joins across integrations whose WHERE holds NOT over a comparison of a column with a constant that OCCURS in the column
    (`NOT p.a > 2` keeps the rows with a = 2; NULLs stay out) - column first, value first, parenthesised."""
    r = rng
    t1, t2 = r.choice([('t1', 't2'), ('t2', 't1'), ('t1', 't3'), ('t2', 't3')])
    c1, c2 = ('x' if t1 == 't3' else 'a'), ('x' if t2 == 't3' else 'a')
    j = r.choice(['JOIN', 'LEFT JOIN', 'INNER JOIN'])
    al, c = r.choice([('p', c1), ('p', 'id'), ('q', c2), ('q', 'id')]) if j != 'LEFT JOIN' else r.choice([('p', c1), ('p', 'id')])
    op, v = r.choice(['>', '<', '>=', '<=', '=', '!=']), r.choice([1, 2, 3])
    cond = r.choice([f'NOT {al}.{c} {op} {v}', f'NOT ({al}.{c} {op} {v})', f'NOT {v} {op} {al}.{c}'])
    extra = r.choice(['', '', f' AND p.id < 6', f' AND q.id IS NOT NULL'])
    return f'SELECT p.id AS id_p, p.{c1} AS v_p, q.id AS id_q, q.{c2} AS v_q FROM {HOME[t1]}.{t1} AS p {j} {HOME[t2]}.{t2} AS q ON p.id = q.id WHERE {cond}{extra}'


def isnull_outer(rng):
    """Outer joins across integrations with IS [NOT] NULL tests on either side in WHERE (the anti-join idiom): a test on the
    NULL-extended side must see the joined row, not the table's own rows."""
    r = rng
    kinds = ['LEFT JOIN', 'LEFT OUTER JOIN', 'RIGHT JOIN', 'RIGHT OUTER JOIN', 'FULL JOIN', 'FULL OUTER JOIN']
    t1, t2 = r.choice([('t1', 't2'), ('t2', 't1'), ('t1', 't3'), ('t3', 't2')])
    c1, c2 = ('x' if t1 == 't3' else 'a'), ('x' if t2 == 't3' else 'a')
    frm = f'{HOME[t1]}.{t1} AS p {r.choice(kinds)} {HOME[t2]}.{t2} AS q ON p.id = q.{r.choice(["id", c2])}'
    scope = [('p', c1), ('q', c2)]
    if r.random() < 0.3:
        t3 = r.choice(['t1', 't2', 't3'])
        c3 = 'x' if t3 == 't3' else 'a'
        frm += f' {r.choice(kinds + ["JOIN"])} {HOME[t3]}.{t3} AS w ON w.id = {r.choice(["p", "q"])}.id'
        scope.append(('w', c3))
    conds = []
    for _ in range(r.choice([1, 1, 2])):
        al, c = r.choice(scope)
        conds.append(f'{al}.{r.choice(["id", c])} IS {r.choice(["", "", "NOT "])}NULL')
    if r.random() < 0.4:
        al, c = r.choice(scope)
        conds.append(f'{al}.{c} {r.choice([">", "<", "="])} {r.choice([0, 1, 2])}')
    r.shuffle(conds)
    tg = ', '.join(f'{al}.id AS id_{al}, {al}.{c} AS v_{al}' for al, c in scope)
    return f'SELECT {tg} FROM {frm} WHERE ' + ' AND '.join(conds)


def model_join(rng):
    """Table(s) joined with a non-timeseries model.  Returns (text, info)."""
    r = rng
    model = r.choice(['mindsdb.m1', 'mindsdb.m1.3', 'proj.m2', 'MINDSDB.m1', 'mindsdb.M1', 'mindsdb.m1.007', 'proj.m2.`²`', 'mindsdb.m1.`①`', 'mindsdb.m1.`٣`',
                      'mindsdb.m1.0', 'proj.m2.12345678901234567890', 'mindsdb.7days', 'mindsdb.7days.3', 'proj.2024_churn', 'MINDSDB.7Days'])
    malias = 'm'
    t = r.choice(['t1', 't2'])
    tbl = f'{HOME[t]}.{t}'
    second = None
    frm = f'{tbl} AS t' if r.random() < 0.9 else f'(SELECT * FROM {tbl} WHERE id > 0) AS t'
    if r.random() < 0.3:
        t2 = r.choice(['t2', 't3'])
        second = f'{HOME[t2]}.{t2}'
        frm += f' {r.choice(["JOIN", "LEFT JOIN"])} {second} AS u ON t.id = u.id'
    on = ''
    if r.random() < 0.3:
        on = f' ON m.{r.choice(["inp", "x"])} = t.a'
    if r.random() < 0.12:
        # a sub-query inside the ON clause of the model's join (planned as a step of its own: before the join, outside any partition)
        sub = r.choice(['t.id IN (SELECT s.id FROM int2.t2 AS s)', 't.a = (SELECT max(s.x) FROM int1.t3 AS s)', 't.id NOT IN (SELECT s.id FROM int1.t3 AS s WHERE s.x > 1)'])
        on = (on + ' AND ' + sub) if on else ' ON ' + sub
    frm += f' JOIN {model} AS {malias}{on}'
    if r.random() < 0.25:
        # a further table (or a second model) after the model
        if r.random() < 0.75:
            t3 = r.choice(['t2', 't3'])
            # ... joined on a column of the first table, or on a column of the model's output
            on3 = r.choice(['t.id = v.id', 't.id = v.id', 'm.k = v.id', 'v.id = m.k', 'm.k = v.id AND t.a = v.id'])
            # ... a plain table, or a nested select over it
            member = f'{HOME[t3]}.{t3}' if r.random() < 0.7 else f'(SELECT * FROM {HOME[t3]}.{t3} WHERE id > 0)'
            frm += f' {r.choice(["JOIN", "LEFT JOIN"])} {member} AS v ON {on3}'
        else:
            frm += ' JOIN proj.m2 AS m9'
    elif r.random() < 0.12:
        frm += f' JOIN {r.choice(["proj.m2", "mindsdb.m1", "proj.m2.4"])} AS m9'
    conj = []
    kinds = []
    for _ in range(r.randint(0, 3)):
        k = r.choice(['model-eq', 'model-eq', 'table-cmp', 'table-cmp', 'table-in', 'model-gt', 'not-model-eq', 'not-table', 'or-mix', 'func-wrapped', 'cross',
                      'model-between', 'table-between', 'model-in', 'model-isnull', 'model-like', 'table-like', 'model-eq-expr'])
        kinds.append(k)
        if k == 'model-eq':
            conj.append(f"m.{r.choice(['p1', 'p2', 'y'])} = {r.choice(['1', chr(39) + 'v' + chr(39), '2.5'])}")
        elif k == 'model-eq-expr':
            conj.append(r.choice(['m.e1 = CAST(5 AS int)', 'm.e2 = 7::int', 'm.e3 = (8)', 'm.e4 = 9 + 0', "m.e5 = DATE '2020-01-01'", 'CAST(1 AS float) = m.e6', 'm.e7 = -1',
                                  'm.e8 = NULL', 'm.e9 = TRUE', "m.e1 = INTERVAL '1 day'", 'm.e2 = (1, 2)', 'm.e3 = now()']))
        elif k == 'table-cmp':
            conj.append(f't.a {r.choice(["=", ">", "<", ">=", "!="])} {r.choice([1, 2, 3])}')
        elif k == 'table-in':
            conj.append('t.id IN (1, 2, 3)')
        elif k == 'model-gt':
            conj.append('m.p3 > 5')
        elif k == 'not-model-eq':
            conj.append('NOT m.p1 = 1')
        elif k == 'not-table':
            conj.append('NOT t.a = 1')
        elif k == 'or-mix':
            conj.append('(m.p1 = 1 OR t.a = 2)')
        elif k == 'func-wrapped':
            conj.append('abs(t.a) = 1')
        elif k == 'model-between':
            conj.append('m.p4 BETWEEN 1 AND 5')
        elif k == 'table-between':
            conj.append('t.a BETWEEN 1 AND 3')
        elif k == 'model-in':
            conj.append('m.p5 IN (1, 2)')
        elif k == 'model-isnull':
            conj.append(r.choice(['m.p6 IS NULL', 'm.p6 IS NOT NULL']))
        elif k == 'model-like':
            conj.append("m.p7 LIKE 'x%'")
        elif k == 'table-like':
            conj.append("t.a LIKE '1%'")
        else:
            conj.append('t.a = m.p9')
    s = f'SELECT {r.choice(["*", "t.id, m.y", "t.*, m.y AS pred", "m.*"])} FROM {frm}'
    if conj:
        s += ' WHERE ' + ' AND '.join(conj)
    if r.random() < 0.25:
        # a bare column, an expression, an ordinal
        s += ' ORDER BY ' + r.choice(['t.id', 't.id', 't.id DESC', 'lower(t.c)', 't.a + 1', '1', 't.id, m.y', 'abs(t.a) DESC, t.id'])
    if r.random() < 0.3:
        s += f' LIMIT {r.choice([1, 5])}'
    using = {}
    two_models = ' AS m9' in frm
    if two_models and r.random() < 0.6:
        # per-model options for two models: equal or different partition sizes, one of them only, other options mixed in
        a, b = r.choice([(100, 20), (2, 2), (3, None), (None, 5), (1, 1000)])
        opts = ([f'm.partition_size = {a}'] if a else []) + ([f'm9.partition_size = {b}'] if b else []) + r.sample(['a = 1', "m9.b = 'x'"], r.randint(0, 1))
        r.shuffle(opts)
        s += ' USING ' + ', '.join(opts)
    elif r.random() < 0.4:
        opts = r.sample(['a = 1', "m.b = 'x'", 'Mode = 2', 'partition_size = 2', 't.c = 3', 'm.partition_size = 3', "m.prompt.template = 'x'", 'x.y.z = 1', 'm.a.b.c = 2',
                         '`m`.bq = 3', 'm.`d.e` = 4', 'M.Partition_Size = 2', 'engine.args.k = 5',
                         # a partition size that is no positive integer: accepted or rejected, never an internal error
                         "partition_size = '1000'", 'partition_size = big', 'partition_size = 0', 'partition_size = -1', 'partition_size = 2.5',
                         'partition_size = null', 'partition_size = true', 'm.partition_size = [1, 2]', "partition_size = ''"], r.randint(1, 2))
        s += ' USING ' + ', '.join(opts)
    return s, {'kinds': kinds, 'model': model, 'second_table': second}


def ts_join(rng):
    """Table joined with a time-series model; returns (text, info)."""
    r = rng
    model = r.choice(['ts1', 'ts0', 'ts2', 'ts1', 'ts0', 'ts2', 'ts3'])
    op = r.choice(['none', '>', '>=', '=', '<', '<=', 'between', '>latest', '=latest'])
    conds = []
    # the same conditions may be written with the MODEL's alias as qualifier, and comparisons with the value first
    ql = 'm' if r.random() < 0.2 else 't'
    flip = r.random() < 0.2
    mirror = {'>': '<', '>=': '<=', '<': '>', '<=': '>=', '=': '='}
    val = None
    if op == 'between':
        val = r.choice([(3, 6), (3, 6), (4, 4), (2, 5), (5, 5), (6, 3), (1, 9)])      # (equal bounds; an empty range)
        conds.append(f"{ql}.ts BETWEEN {val[0]} AND {val[1]}")
    elif op == '>latest':
        conds.append(f'{ql}.ts > LATEST')
    elif op == '=latest':
        conds.append(f'{ql}.ts = LATEST')
    elif op != 'none':
        val = r.choice([2, 4, 5])
        conds.append(f'{val} {mirror[op]} {ql}.ts' if flip else f'{ql}.ts {op} {val}')
    groups = {'ts1': ['g'], 'ts0': [], 'ts2': ['g', 'h'], 'ts3': ['gts']}[model]
    pf = False
    pval = None
    if groups and r.random() < 0.5:
        pval = r.choice([1, 2])
        conds.append(f"{pval} = {ql}.{groups[0]}" if flip else f"{ql}.{groups[0]} = {pval}")
        pf = True
    extra = r.choice([''] * 12 + ['order', 'group', 'offset', 'foreign', 'having', 'group-having', 'offset-comma', 'order-expr'])
    r.shuffle(conds)
    left = r.random() < 0.25
    tbl = 'int1.series AS t'
    frm = f'mindsdb.{model} AS m JOIN {tbl}' if left else f'{tbl} JOIN mindsdb.{model} AS m'
    s = f'SELECT {r.choice(["*", "m.ts, m.yhat", "t.ts, m.yhat AS f"])} FROM {frm}'
    if extra == 'foreign':
        # a column that is neither the order column nor a partition column - also one whose name is PART of such a name
        conds.append(f"t.{r.choice(['other', 'other', 't', 's', 'ts2', 'gg', 'G1', 'v'])} = 1")
    if conds:
        # the same conjunction written flat, or with a parenthesised group on the right / on the left
        if len(conds) >= 2 and pf and r.random() < 0.5:
            g = next(c for c in conds if '.g' in c)
            conds.insert(r.randrange(len(conds) + 1), g)          # the partition filter stated twice: same meaning
        nest = r.choice(['flat', 'flat', 'right', 'left', 'each']) if len(conds) >= 2 else 'flat'
        if nest == 'right' and len(conds) >= 3:
            where = conds[0] + ' AND (' + ' AND '.join(conds[1:]) + ')'
        elif nest == 'right':
            where = conds[0] + ' AND (' + conds[1] + ')'
        elif nest == 'left' and len(conds) >= 3:
            where = '(' + ' AND '.join(conds[:-1]) + ') AND ' + conds[-1]
        elif nest == 'each':
            where = ' AND '.join('(' + c + ')' for c in conds)
        else:
            where = ' AND '.join(conds)
        s += ' WHERE ' + where
    if extra in ('group', 'group-having'):
        s += ' GROUP BY t.g'
    if extra in ('having', 'group-having'):
        s += ' HAVING count(*) > 0'
    if extra == 'order':
        s += ' ORDER BY t.ts'
    if extra == 'order-expr':
        s += ' ORDER BY t.v + 1 DESC'
    lim = None
    if r.random() < 0.4 or extra in ('offset', 'offset-comma'):
        lim = r.choice([1, 3, 10])
        s += f' LIMIT 1, {lim}' if extra == 'offset-comma' else f' LIMIT {lim}'
    if extra == 'offset':
        s += ' OFFSET 1'
    # (info['extra'] names the clause kind only)
    extra = {'group-having': 'group', 'offset-comma': 'offset', 'order-expr': 'order'}.get(extra, extra)
    return s, {'model': model, 'op': op, 'partition_filter': pf, 'extra': extra, 'limit': lim, 'model_left': left, 'val': val, 'part_value': pval,
               'qualifier': ql, 'value_first': flip}


def dml(rng):
    r = rng
    k = r.choice(['insert-select', 'insert-select-join', 'insert-values', 'update-from', 'update', 'delete-sub', 'delete', 'create-as', 'create-cols', 'create-as-model',
                  'insert-select-derived', 'create-as-derived', 'insert-select-union', 'delete-sub-derived', 'insert-select-cte'])
    if k == 'insert-select-derived':
        return k, 'INSERT INTO int2.newt (a, b) SELECT s.id, s.a FROM (SELECT p.id, p.a FROM int1.t1 AS p WHERE p.a > 1) AS s WHERE s.id < 9'
    if k == 'create-as-derived':
        return k, 'CREATE TABLE int2.newt (SELECT s.id, s.a FROM (SELECT p.id, p.a FROM int1.t1 AS p) AS s)'
    if k == 'insert-select-union':
        return k, 'INSERT INTO int2.newt (a) SELECT p.id FROM int1.t1 AS p UNION SELECT s.id FROM (SELECT q.id FROM int3.t3 AS q) AS s'
    if k == 'delete-sub-derived':
        return k, 'DELETE FROM int1.t1 WHERE id IN (SELECT s.id FROM (SELECT q.id FROM int2.t2 AS q WHERE q.a = 1) AS s)'
    if k == 'insert-select-cte':
        return k, 'INSERT INTO int2.newt (a) WITH c AS (SELECT p.id FROM int1.t1 AS p) SELECT c.id FROM c' if False else 'INSERT INTO int2.newt (a, b) SELECT s.id, u.a FROM (SELECT p.id FROM int1.t1 AS p) AS s JOIN int2.t2 AS u ON s.id = u.id'
    if k == 'insert-select':
        return k, f'INSERT INTO int2.newt (a, b) SELECT p.id, p.a FROM int1.t1 AS p WHERE p.a > 1'
    if k == 'insert-select-join':
        return k, 'INSERT INTO int2.newt (a, b) SELECT p.id, q.a FROM int1.t1 AS p JOIN int2.t2 AS q ON p.id = q.id'
    if k == 'insert-values':
        return k, "INSERT INTO int1.t1 (id, a) VALUES (1, 2), (3, 4)"
    if k == 'update-from':
        return k, 'UPDATE int2.t2 SET a = s.a FROM (SELECT p.id, p.a FROM int1.t1 AS p) AS s WHERE t2.id = s.id'
    if k == 'update':
        return k, 'UPDATE int1.t1 SET a = 1 WHERE id = 2'
    if k == 'delete-sub':
        return k, 'DELETE FROM int1.t1 WHERE id IN (SELECT q.id FROM int2.t2 AS q WHERE q.a = 1)'
    if k == 'delete':
        return k, 'DELETE FROM int1.t1 WHERE a = 1 AND id > 2'
    if k == 'create-as':
        return k, 'CREATE TABLE int2.newt (SELECT p.id, q.a FROM int1.t1 AS p JOIN int2.t2 AS q ON p.id = q.id)'
    if k == 'create-as-model':
        return k, 'CREATE OR REPLACE TABLE int2.newt (SELECT t.id, m.y FROM int1.t1 AS t JOIN mindsdb.m1 AS m)'
    return k, 'CREATE TABLE int1.newt (a int, b text)'


def limit_query(rng):
    """Joins with LIMIT/OFFSET whose ORDER BY (if any) names only the first table: the shapes where a planner is tempted to
    push ORDER BY / LIMIT into the first fetch.  Returns (text, mode, limit, offset); mode 'ordered' = total order (join on unique
    ids), 'unordered' = no ORDER BY (any `limit` rows of the full result are a correct answer)."""
    r = rng
    t1, t2 = r.choice(['t1', 't2', 't3']), r.choice(['t1', 't2', 't3'])
    jt = r.choice(['JOIN', 'INNER JOIN', 'LEFT JOIN', 'LEFT OUTER JOIN'])
    key2 = r.choice(['id', 'id', 'a' if t2 != 't3' else 'x'])
    on = f'p.id = q.{key2}'
    if r.random() < 0.3:
        on += f' AND q.id {r.choice(["<", ">", "!="])} {r.choice([1, 2, 3])}'
    s = f'SELECT p.id AS id_p, q.id AS id_q FROM {qual_multi(t1)} AS p {jt} {qual_multi(t2)} AS q ON {on}'
    if r.random() < 0.4:
        s += f' WHERE {r.choice(["p.id > 1", "q.id IS NOT NULL", "p.id != 2", "q.id < 5"])}'
    lim = r.choice([1, 2, 3])
    off = r.choice([None, None, 1, 2])
    if key2 == 'id' and r.random() < 0.3:
        # multi-key total order whose leading key (with duplicates) is from the first table and a later key from the joined one
        lead = 'a' if t1 != 't3' else 'x'
        s += f' ORDER BY p.{lead}{r.choice(["", " DESC"])} NULLS LAST, q.id{r.choice(["", " DESC"])} NULLS LAST, p.id'
        s += f' LIMIT {lim}' + (f' OFFSET {off}' if off is not None else '')
        return s, 'ordered', lim, off or 0
    if key2 == 'id' and jt.startswith('LEFT') and r.random() < 0.35:
        # a first-table sort key WITH NULLs and an explicit NULLS placement against the engine's default (NULLS LAST ascending,
        # NULLS FIRST descending): where the limit is taken, the placement must be the statement's
        lead = 'a' if t1 != 't3' else 'x'
        d = r.choice(['', ' DESC'])
        s += f' ORDER BY p.{lead}{d} NULLS {"LAST" if d == "" else "FIRST"}, p.id'
        s += f' LIMIT {lim}' + (f' OFFSET {off}' if off is not None else '')
        return s, 'ordered', lim, off or 0
    if key2 == 'id' and r.random() < 0.6:
        s += f' ORDER BY p.id{r.choice(["", " DESC"])}'
        mode = 'ordered'
    else:
        mode = 'unordered'
    s += f' LIMIT {lim}'
    if off is not None:
        s += f' OFFSET {off}'
    return s, mode, lim, off or 0


def cte_query(rng):
    """CTEs whose name may coincide with a real table of another integration that the same statement also uses
    (join partner, IN-subquery, UNION branch).  Returns text (unordered result)."""
    r = rng
    name = r.choice(['cte1', 't1', 't2', 't3', 't2', 't3', 'Recent', 'CTE_X', 'myCte'])
    src = r.choice(['t1', 't2', 't3'])
    body = f'SELECT s.id AS id, s.{"a" if src != "t3" else "x"} AS v FROM {qual_multi(src)} AS s WHERE s.id {r.choice(["<", ">", "!="])} {r.choice([2, 3, 4])}'
    other = r.choice(['t1', 't2', 't3'])
    k = r.choice(['join', 'in-sub', 'union', 'plain', 'cte-in-sub', 'cte-in-sub'])
    if k == 'cte-in-sub':
        # the main table is a real one, the CTE (often of another integration) is read by a sub-query of the WHERE clause
        return (f'WITH {name} AS ({body}) SELECT o.id AS oid FROM {qual_multi(other)} AS o WHERE '
                f'{r.choice(["", "o.id > 0 AND "])}o.id IN (SELECT c.id FROM {name} AS c{r.choice(["", " WHERE c.v IS NOT NULL"])})')
    if k == 'join':
        return f'WITH {name} AS ({body}) SELECT c.id AS cid, c.v AS cv, o.id AS oid FROM {name} AS c {r.choice(["JOIN", "LEFT JOIN"])} {qual_multi(other)} AS o ON c.id = o.id'
    if k == 'in-sub':
        return f'WITH {name} AS ({body}) SELECT c.id AS cid, c.v AS cv FROM {name} AS c WHERE c.id IN (SELECT o.id FROM {qual_multi(other)} AS o WHERE o.id > 1)'
    if k == 'union':
        return f'WITH {name} AS ({body}) SELECT c.id AS id FROM {name} AS c UNION ALL SELECT o.id AS id FROM {qual_multi(other)} AS o'
    return f'WITH {name} AS ({body}) SELECT c.id AS cid, c.v AS cv FROM {name} AS c WHERE c.v IS NOT NULL'


def star_query(rng):
    """`SELECT [DISTINCT] *` on top of nested federated selects / joins of derived tables that project non-unique columns
    (so that DISTINCT, and any other clause the outer select carries, is observable).  Unordered result."""
    r = rng
    d1 = f"(SELECT p.a AS a{r.choice(['', ', p.c AS c'])} FROM int1.t1 AS p{r.choice(['', ' WHERE p.a IS NOT NULL'])}) AS s"
    d2 = f"(SELECT q.a AS b{r.choice(['', ', q.d AS d'])} FROM int2.t2 AS q) AS u"
    inner_join = "(SELECT p.a AS a, q.d AS d FROM int1.t1 AS p JOIN int2.t2 AS q ON p.a = q.a) AS s"
    frm = r.choice([f'{d1} JOIN {d2} ON s.a = u.b', f'{d1} LEFT JOIN {d2} ON s.a = u.b', inner_join, inner_join, f'{d1} JOIN int2.t2 AS u ON s.a = u.a'])
    distinct = r.choice(['DISTINCT ', 'DISTINCT ', ''])
    where = r.choice(['', '', ' WHERE s.a > 0', ' WHERE s.a IS NOT NULL'])
    return f'SELECT {distinct}* FROM {frm}{where}'

