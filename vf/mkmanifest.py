"""Regenerate /verif/MANIFEST.json from the property modules that exist (developer tool)."""
import importlib
import json
import os

from vf import core

NOT_APPLICABLE = {}   # property_id -> reason (filled in while a property has no check yet)


def main():
    core.use_repo()
    props = [json.loads(l) for l in open(os.path.join(core.VERIF, 'properties.jsonl'))]
    checks, na = [], []
    for p in props:
        pid = p['id']
        try:
            mod = importlib.import_module('vf.props.' + pid.lower())
        except ModuleNotFoundError:
            na.append({'property_id': pid, 'reason': NOT_APPLICABLE.get(
                pid, 'runtime monitoring applies (see DESIGN.md section 3) but the check is not built yet; not claimed until it is')})
            continue
        checks.append({
            'property_id': pid,
            'quick_cmd': f'/venv/bin/python -m vf.run {pid} --tier quick',
            'thorough_cmd': f'/venv/bin/python -m vf.run {pid} --tier thorough',
            'evidence_file': f'/verif/evidence/{pid}.json',
            'replay_cmd_template': f'/venv/bin/python -m vf.run {pid} --replay {{path}}',
            'engine': 'vf',
            'level_claimed': {'category': mod.LEVEL,
                              'text': getattr(mod, 'LEVEL_TEXT', mod.__doc__.strip().split('\n\n')[-1].replace('\n', ' ')),
                              'design_ref': f'DESIGN.md section 3 / {pid}'},
            'level_note': '; '.join(getattr(mod, 'ASSUMPTIONS', [])) or 'see DESIGN.md',
            'technique': mod.TECHNIQUE,
        })
    man = {
        'version': 1,
        'setup_cmd': '/venv/bin/python -c "import sqlite3, sqlalchemy, sys; assert sys.version_info >= (3, 12)"',
        'hooks': {
            'guard': 'MINDSDB_SQL_VERIF',
            'enable': 'no source hooks: every monitor attaches from the harness (wrapping Production.func, Parser.error, '
                      'Lexer.tokenize, API entry points; sys.monitoring); the guard name is reserved and read by nothing',
            'baseline_off_cmd': 'cd /repo && /venv/bin/python -m pytest -ra -q -p no:cacheprovider --timeout=900 '
                                '--continue-on-collection-errors',
            'source_commits': [],
            'add_only': True,
        },
        'engines': [{'name': 'vf', 'path': '/verif/vf', 'serves_properties': [c['property_id'] for c in checks],
                     'kind_free_text': 'runtime monitoring: real functions run under generated/hostile workloads in worker '
                                       'processes; monitors record reduction traces, error callbacks, API events, '
                                       'reflective snapshots; deterministic oracles (certificate checker, sqlite3 reference '
                                       'engine, reference models) decide each recorded execution'}],
        'checks': checks,
        'not_applicable': na,
        'notes': 'exit 0 = held (listed known findings only, printed as KNOWN-FINDING lines); 1 = VIOLATION; 2 = inconclusive '
                 '(monitor not reached / reach floor not met). VERIF_SEED seeds every random choice; VERIF_REPO selects the tree.',
    }
    with open(os.path.join(core.VERIF, 'MANIFEST.json'), 'w') as f:
        json.dump(man, f, indent=1)
    print('checks:', [c['property_id'] for c in checks], 'not claimed:', [n['property_id'] for n in na])


if __name__ == '__main__':
    main()
