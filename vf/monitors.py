"""Monitors attached to the real code from outside the repository (no source hooks).

M1 reduction-trace recorder, M2 error-callback recorder, M3 token tap, M5 reflective
struct()/walker, M6 exception classifier."""
import os
import sys
import threading
import traceback

from vf import core

_tls = threading.local()


def _rec():
    r = getattr(_tls, 'rec', None)
    if r is None:
        r = _tls.rec = Recording()
    return r


class Recording:
    """Per-thread record of one monitored parse."""

    def __init__(self):
        self.reset()

    def reset(self):
        self.active = False
        self.reductions = []      # production numbers, in order, of the OUTERMOST parser.parse call
        self.red_states = set()
        self.error_calls = []     # dicts
        self.tokens = []          # (type, value, index, end, lineno) offered by the lexer
        self.parse_depth = 0      # parser.parse re-entries (the suggestion builder re-parses)
        self.parse_calls = 0
        self.frozen = False       # set at the first error() of the outermost parse


# --------------------------------------------------------------------------------------
# M1 / M2 / M3 installation
# --------------------------------------------------------------------------------------

_installed = {}


def parser_classes():
    from mindsdb_sql.parser.parser import SQLParser
    from mindsdb_sql.parser.dialects.mysql.parser import MySQLParser
    from mindsdb_sql.parser.dialects.mindsdb.parser import MindsDBParser
    return {'sqlite': SQLParser, 'mysql': MySQLParser, 'mindsdb': MindsDBParser}


def lexer_classes():
    from mindsdb_sql.parser.lexer import SQLLexer
    from mindsdb_sql.parser.dialects.mysql.lexer import MySQLLexer
    from mindsdb_sql.parser.dialects.mindsdb.lexer import MindsDBLexer
    return {'sqlite': SQLLexer, 'mysql': MySQLLexer, 'mindsdb': MindsDBLexer}


def install_parser_monitors():
    """Idempotent.  Wrap every grammar action (Production.func), error() and parse() of the three
    parser classes and tokenize() of the three lexer classes."""
    if _installed.get('parser'):
        return
    import sly.yacc
    for dialect, P in parser_classes().items():
        prods = P._grammar.Productions
        for p in prods[1:]:
            f = p.func
            if f is None or getattr(f, '_vf_wrapped', False):
                continue
            p.func = _wrap_action(f, p.number)
        if 'error' in P.__dict__:
            P.error = _wrap_error(P.__dict__['error'])
        if 'parse' in P.__dict__:
            P.parse = _wrap_parse(P.__dict__['parse'])
    base = sly.yacc.Parser
    if not getattr(base.error, '_vf_wrapped', False):
        base.error = _wrap_error(base.error)
    if not getattr(base.parse, '_vf_wrapped', False):
        base.parse = _wrap_parse(base.parse)
    for dialect, L in lexer_classes().items():
        if 'tokenize' in L.__dict__:
            L.tokenize = _wrap_tokenize(L.__dict__['tokenize'])
    import sly.lex
    if not getattr(sly.lex.Lexer.tokenize, '_vf_wrapped', False):
        sly.lex.Lexer.tokenize = _wrap_tokenize(sly.lex.Lexer.tokenize)
    _installed['parser'] = True


def _wrap_action(f, number):
    def action(parser, pslice):
        r = _rec()
        if r.active and r.parse_depth == 1 and not r.frozen:
            r.reductions.append(number)
            r.red_states.add(parser.state)
        return f(parser, pslice)
    action._vf_wrapped = True
    action.__wrapped__ = f
    return action


def _wrap_error(f):
    def error(self, token, *a, **kw):
        r = _rec()
        if r.active and r.parse_depth == 1:
            exp = kw.get('expected_tokens')
            r.error_calls.append({
                'type': getattr(token, 'type', None) if token is not None else None,
                'value': getattr(token, 'value', None) if token is not None else None,
                'index': getattr(token, 'index', None) if token is not None else None,
                'end': getattr(token, 'end', None) if token is not None else None,
                'lineno': getattr(token, 'lineno', None) if token is not None else None,
                'eof': token is None,
                'expected': list(exp) if exp is not None else None,
                'used_tokens': len(getattr(self, 'used_tokens', []) or []),
                'nreductions': len(r.reductions),
            })
            r.frozen = True
        return f(self, token, *a, **kw)
    error._vf_wrapped = True
    return error


def _wrap_parse(f):
    def parse(self, tokens):
        r = _rec()
        if not r.active:
            return f(self, tokens)
        r.parse_depth += 1
        r.parse_calls += 1
        try:
            return f(self, tokens)
        finally:
            r.parse_depth -= 1
    parse._vf_wrapped = True
    return parse


def _wrap_tokenize(f):
    def tokenize(self, text, *a, **kw):
        r = _rec()
        gen = f(self, text, *a, **kw)
        if not r.active or r.parse_depth != 0 or r.tokens:
            return gen
        return _tap(gen, r)
    tokenize._vf_wrapped = True
    return tokenize


def _tap(gen, r):
    for t in gen:
        r.tokens.append((t.type, t.value, t.index, t.end, t.lineno))
        yield t


class monitored_parse:
    """with monitored_parse() as rec: parse_sql(...)   -> rec holds trace, error calls, tokens."""

    def __enter__(self):
        r = _rec()
        r.reset()
        r.active = True
        return r

    def __exit__(self, *exc):
        _rec().active = False
        return False


def lex_all(text, dialect):
    """The complete token list of `text` (after parse_sql's own stripping), from a fresh lexer,
    independent of how much the parser consumed.  Raises LexError like the lexer does."""
    import re
    L = lexer_classes()[dialect]
    text = re.sub(r'[\s;]+$', '', text)
    r = _rec()
    was = r.active
    r.active = False
    try:
        return [(t.type, t.value, t.index, t.end, t.lineno) for t in L().tokenize(text)]
    finally:
        r.active = was


# --------------------------------------------------------------------------------------
# R1 derivation-certificate checker
# --------------------------------------------------------------------------------------

def check_certificate(productions, start_symbol, reductions, token_types):
    """The reductions of an LR parse are a rightmost derivation in reverse.  Replay them
    backwards from the start symbol; the final sentential form must be exactly the token
    type sequence.  Returns (ok, reason)."""
    nonterms = {p.name for p in productions}
    form = [start_symbol]
    # rightmost derivation: expand the rightmost non-terminal each step
    for num in reversed(reductions):
        p = productions[num]
        # find rightmost nonterminal
        i = len(form) - 1
        while i >= 0 and form[i] not in nonterms:
            i -= 1
        if i < 0:
            return False, f'no non-terminal left to expand with production {num} ({p.name})'
        if form[i] != p.name:
            return False, f'rightmost non-terminal {form[i]} != lhs {p.name} of production {num}'
        form[i:i + 1] = list(p.prod)
    if any(s in nonterms for s in form):
        return False, 'unexpanded non-terminal remains'
    if form != list(token_types):
        # locate first difference
        j = 0
        while j < min(len(form), len(token_types)) and form[j] == token_types[j]:
            j += 1
        return False, f'derived {len(form)} tokens, input has {len(token_types)}; first difference at token {j}'
    return True, ''


# --------------------------------------------------------------------------------------
# M5 reflective struct / walker
# --------------------------------------------------------------------------------------

_SCALARS = (str, int, float, bool, type(None), bytes)


def struct(x, _depth=0):
    """Canonical structural value of any object graph of AST nodes / plan steps / containers.
    Knows nothing about individual node classes (uses vars())."""
    if _depth > 200:
        return '<deep>'
    if isinstance(x, _SCALARS):
        return (type(x).__name__, x) if not isinstance(x, (str, type(None))) else x
    if isinstance(x, (list, tuple)):
        return [type(x).__name__] + [struct(i, _depth + 1) for i in x]
    if isinstance(x, dict):
        return {'__dict__': [[struct(k, _depth + 1), struct(v, _depth + 1)] for k, v in x.items()]}
    if isinstance(x, (set, frozenset)):
        return {'__set__': sorted((core.canon(struct(i, _depth + 1)) for i in x))}
    d = getattr(x, '__dict__', None)
    if d is not None:
        return {'__class__': type(x).__name__,
                'fields': {k: struct(v, _depth + 1) for k, v in sorted(d.items())}}
    return ('<obj>', type(x).__name__, repr(x))


def struct_key(x):
    return core.digest(core.canon(struct(x)), n=16)


def walk(x, path='', _seen=None):
    """Yield (path, obj) for every object reachable through lists/tuples/dicts/__dict__."""
    if _seen is None:
        _seen = set()
    if isinstance(x, _SCALARS):
        return
    if id(x) in _seen:
        return
    _seen.add(id(x))
    yield path, x
    if isinstance(x, (list, tuple)):
        for i, v in enumerate(x):
            yield from walk(v, f'{path}[{i}]', _seen)
    elif isinstance(x, dict):
        for k, v in x.items():
            yield from walk(v, f'{path}[{k!r}]', _seen)
    elif isinstance(x, (set, frozenset)):
        for v in x:
            yield from walk(v, f'{path}{{}}', _seen)
    else:
        d = getattr(x, '__dict__', None)
        if d is not None:
            for k, v in d.items():
                yield from walk(v, f'{path}.{k}', _seen)


def mutable_ids(x):
    """ids of all mutable containers / objects reachable from x (sharing test)."""
    return {id(o): p for p, o in walk(x) if not isinstance(o, (tuple, frozenset))}


# --------------------------------------------------------------------------------------
# M6 exception classifier
# --------------------------------------------------------------------------------------

def classify_exception(e, parser=None):
    """(type, innermost function inside the tree under test, source line text, file)."""
    tb = traceback.extract_tb(e.__traceback__)
    inner = None
    for fr in tb:
        f = os.path.abspath(fr.filename)
        if f.startswith(core.REPO + os.sep):
            inner = fr
    msg = str(e)
    import re
    msgclass = re.sub(r"'[^']*'|\"[^\"]*\"|\d+", '_', msg)[:60]
    if inner is None:
        return {'etype': type(e).__name__, 'func': '?', 'file': '?', 'line': '', 'msgclass': msgclass}
    return {'etype': type(e).__name__, 'func': inner.name,
            'file': os.path.relpath(inner.filename, core.REPO),
            'line': (inner.line or '').strip()[:100], 'msgclass': msgclass}


# --------------------------------------------------------------------------------------
# M8 logical step counter (sys.monitoring, PY_START events inside the tree under test)
# --------------------------------------------------------------------------------------

class StepBudgetExceeded(BaseException):
    pass


class StepCounter:
    """Counts Python function entries inside the tree under test; raises StepBudgetExceeded in
    the monitored thread when a budget is passed (logical, not wall-clock, notion of 'terminates')."""
    TOOL = 3

    def __init__(self):
        self.count = 0
        self.budget = None
        self.on = False
        mon = sys.monitoring
        try:
            mon.use_tool_id(self.TOOL, 'vf-steps')
        except ValueError:
            pass
        mon.register_callback(self.TOOL, mon.events.PY_START, self._start)
        self._prefix = core.REPO + os.sep

    def _start(self, code, offset):
        if not code.co_filename.startswith(self._prefix):
            return sys.monitoring.DISABLE
        if self.on:
            self.count += 1
            if self.budget is not None and self.count > self.budget:
                self.on = False
                raise StepBudgetExceeded(self.count)

    def start(self, budget=None):
        self.count = 0
        self.budget = budget
        self.on = True
        sys.monitoring.set_events(self.TOOL, sys.monitoring.events.PY_START)

    def stop(self):
        self.on = False
        sys.monitoring.set_events(self.TOOL, 0)
        return self.count


# --------------------------------------------------------------------------------------
# pristine-state reference: answers computed in a process state no library call has touched
# --------------------------------------------------------------------------------------

class Pristine:
    """A child forked before the calling process made any call of the library (imports only).  It serves requests by
    forking a grandchild per request, so every answer comes from the import-time state: the reference for "the result
    depends on the input only".  fn(arg) must return something JSON-serialisable."""

    def __init__(self, fn):
        import json, os
        req_r, req_w = os.pipe()
        res_r, res_w = os.pipe()
        pid = os.fork()
        if pid == 0:
            try:
                os.close(req_w)
                os.close(res_r)
                rf, wf = os.fdopen(req_r, 'rb'), os.fdopen(res_w, 'wb')
                while True:
                    line = rf.readline()
                    if not line:
                        break
                    arg = json.loads(line)
                    r, w = os.pipe()
                    p2 = os.fork()
                    if p2 == 0:
                        code = 0
                        try:
                            os.close(r)
                            try:
                                data = json.dumps(fn(arg)).encode()
                            except BaseException as e:          # noqa
                                data = json.dumps(['harness-error', repr(e)[:200]]).encode()
                            with os.fdopen(w, 'wb') as f:
                                f.write(data)
                        except BaseException:                   # noqa
                            code = 3
                        finally:
                            os._exit(code)
                    os.close(w)
                    with os.fdopen(r, 'rb') as f:
                        data = f.read()
                    os.waitpid(p2, 0)
                    wf.write(len(data).to_bytes(4, 'big') + data)
                    wf.flush()
            finally:
                os._exit(0)
        os.close(req_r)
        os.close(res_w)
        self.pid = pid
        self.wf, self.rf = os.fdopen(req_w, 'wb'), os.fdopen(res_r, 'rb')
        self.calls = 0

    def call(self, arg):
        import json
        self.wf.write(json.dumps(arg).encode() + b'\n')
        self.wf.flush()
        n = int.from_bytes(self.rf.read(4), 'big')
        self.calls += 1
        return json.loads(self.rf.read(n)) if n else None

    def close(self):
        import os
        try:
            self.wf.close()
            self.rf.close()
            os.waitpid(self.pid, 0)
        except Exception:
            pass



class CpuBudgetExceeded(BaseException):
    """Raised by CpuWatchdog inside the monitored call (BaseException: no `except Exception` of the library swallows it)."""


class CpuWatchdog:
    """Bounds the CPU time (user time of this process, ITIMER_VIRTUAL - independent of machine load) of one call.
    The signal is delivered between bytecodes and inside the regular-expression engine, which polls for signals."""

    def __init__(self):
        import signal
        self.signal = signal
        self.fired = False
        signal.signal(signal.SIGVTALRM, self._fire)

    def _fire(self, signum, frame):
        self.fired = True
        raise CpuBudgetExceeded()

    def start(self, seconds):
        self.fired = False
        self.signal.setitimer(self.signal.ITIMER_VIRTUAL, seconds)

    def stop(self):
        """Seconds of the budget that were left."""
        left, _ = self.signal.setitimer(self.signal.ITIMER_VIRTUAL, 0)
        return left
