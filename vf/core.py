"""Shared plumbing: tree-under-test selection, seeding, per-shard accumulator,
known-findings matching.  Only the standard library is used here."""
import hashlib
import json
import os
import random
import sys
import time

VERIF = os.path.dirname(os.path.dirname(os.path.abspath(__file__)))
REPO = os.path.abspath(os.environ.get('VERIF_REPO', '/repo'))
FINDINGS_FILE = os.path.join(VERIF, 'known_findings.json')


class Inconclusive(Exception):
    """The deciding monitor could not be attached / reached."""


def use_repo():
    """Put the tree under test first on sys.path and make sure that is what gets imported."""
    if REPO in sys.path:
        sys.path.remove(REPO)
    sys.path.insert(0, REPO)
    try:
        import mindsdb_sql
        import sly
    except Exception as e:  # tree does not import: nothing can be vouched for
        raise Inconclusive(f'tree under test does not import: {type(e).__name__}: {e}')
    for m in (mindsdb_sql, sly):
        f = os.path.abspath(m.__file__)
        if not f.startswith(REPO + os.sep):
            raise Inconclusive(f'{m.__name__} imported from {f}, not from {REPO}')
    return mindsdb_sql


def digest(*parts, n=12):
    h = hashlib.sha256()
    for p in parts:
        h.update(repr(p).encode('utf-8', 'backslashreplace'))
        h.update(b'\0')
    return h.hexdigest()[:n]


def rng_for(seed, *labels):
    return random.Random(int(digest(seed, *labels, n=16), 16))


def canon(obj):
    return json.dumps(obj, sort_keys=True, ensure_ascii=True, default=repr)


# --------------------------------------------------------------------------------------
# known findings
# --------------------------------------------------------------------------------------

_findings_cache = None


def load_findings():
    global _findings_cache
    if _findings_cache is None:
        try:
            with open(FINDINGS_FILE) as f:
                _findings_cache = json.load(f).get('findings', [])
        except FileNotFoundError:
            _findings_cache = []
    return _findings_cache


def _match_one(pattern, value):
    """pattern: scalar, list of admissible scalars, or {"not": [...]} / {"prefix": "..."}."""
    if isinstance(pattern, dict):
        if 'not' in pattern:
            return value not in pattern['not']
        if 'prefix' in pattern:
            return isinstance(value, str) and value.startswith(pattern['prefix'])
        if 'contains' in pattern:
            return isinstance(value, str) and pattern['contains'] in value
        if 'regex' in pattern:
            import re
            return isinstance(value, str) and re.search(pattern['regex'], value) is not None
        return False
    if isinstance(pattern, list):
        return value in pattern
    return value == pattern


def explained_by(prop, sig):
    """Id of the open listed finding whose `match` accepts this signature, else None."""
    for f in load_findings():
        if f.get('property') != prop or f.get('status') != 'open':
            continue
        # `match` = one pattern; `match_any` = several patterns of one mechanism (its observable forms)
        for m in (f.get('match_any') or [f.get('match', {})]):
            if all(k in sig and _match_one(p, sig[k]) for k, p in m.items()):
                return f['id']
    return None


# --------------------------------------------------------------------------------------
# per-shard accumulator
# --------------------------------------------------------------------------------------

class Acc:
    """What one worker observed.  Everything is JSON-serialisable so that the parent can merge."""
    MAX_WITNESS_PER_SIG = 3
    MAX_SAMPLES = 6

    def __init__(self, prop):
        self.prop = prop
        self.evaluations = 0
        self.keys = set()
        self.counters = {}
        self.sets = {}
        self.maxes = {}
        self.failures = {}   # canon(sig) -> {'sig':..., 'n':..., 'witnesses':[...]}
        self.samples = []
        self.notes = []

    def ev(self, n=1):
        self.evaluations += n

    def key(self, *k):
        self.keys.add(digest(*k))

    def count(self, name, n=1):
        self.counters[name] = self.counters.get(name, 0) + n

    def add(self, setname, item):
        self.sets.setdefault(setname, set()).add(item)

    def max(self, name, v):
        if v > self.maxes.get(name, float('-inf')):
            self.maxes[name] = v

    def sample(self, obj, force=False):
        if force or len(self.samples) < self.MAX_SAMPLES:
            self.samples.append(obj)

    def fail(self, sig, witness):
        k = canon(sig)
        e = self.failures.setdefault(k, {'sig': sig, 'n': 0, 'witnesses': []})
        e['n'] += 1
        if len(e['witnesses']) < self.MAX_WITNESS_PER_SIG:
            e['witnesses'].append(witness)

    def dump(self):
        return {
            'prop': self.prop,
            'evaluations': self.evaluations,
            'keys': sorted(self.keys),
            'counters': self.counters,
            'sets': {k: sorted(v, key=repr) for k, v in self.sets.items()},
            'maxes': self.maxes,
            'failures': list(self.failures.values()),
            'samples': self.samples,
            'notes': self.notes,
        }


class Ctx:
    """Handed to props.<id>.run_shard()."""

    def __init__(self, prop, tier, seed, shard, nshards, budget_s):
        self.prop = prop
        self.tier = tier
        self.seed = seed
        self.shard = shard
        self.nshards = nshards
        self.budget_s = budget_s
        self.t0 = time.monotonic()
        self.acc = Acc(prop)
        self.rng = rng_for(seed, prop, 'shard', shard)

    def mine(self, i):
        """Deterministic partition of case index i over shards."""
        return i % self.nshards == self.shard

    def time_left(self):
        return self.budget_s - (time.monotonic() - self.t0)

    def out_of_time(self):
        if self.time_left() <= 0:
            if not getattr(self, '_cut_noted', False):
                self._cut_noted = True
                self.acc.notes.append(f'shard {self.shard}: time budget hit (budget {self.budget_s:.0f} s)')
            return True
        return False

    def explained(self, sig):
        return explained_by(self.prop, sig)

    def sub_rng(self, *labels):
        return rng_for(self.seed, self.prop, *labels)
