"""One shard of one property check, in its own process.
usage: python -m vf.worker <PROP> <tier> <seed> <shard> <nshards> <budget_s> <outfile>"""
import importlib
import json
import os
import sys
import traceback


def main(argv):
    prop, tier, seed, shard, nshards, budget_s, out = argv
    seed, shard, nshards, budget_s = int(seed), int(shard), int(nshards), float(budget_s)
    from vf import core
    res = {'status': 'ok'}
    cov = None
    if os.environ.get('VERIF_COV'):
        # developer tool (never set by a registered command): which lines of the tree under test does this workload
        # execute at all?  A line no check ever runs is a line whose change no monitor can see.
        import coverage
        cov = coverage.Coverage(data_file=os.path.join(os.environ['VERIF_COV'], '.coverage'), data_suffix=True,
                                branch=True, include=[os.path.join(core.REPO, 'mindsdb_sql', '*'),
                                                      os.path.join(core.REPO, 'sly', '*')])
        cov.start()
    try:
        core.use_repo()
        mod = importlib.import_module('vf.props.' + prop.lower())
        ctx = core.Ctx(prop, tier, seed, shard, nshards, budget_s)
        mod.run_shard(ctx)
        res.update(ctx.acc.dump())
    except core.Inconclusive as e:
        res = {'status': 'inconclusive', 'reason': str(e)}
    except BaseException as e:  # harness bug or monitor lost its target: never a verdict
        res = {'status': 'inconclusive',
               'reason': f'worker error {type(e).__name__}: {e}',
               'trace': traceback.format_exc()[-4000:]}
    if cov is not None:
        cov.stop()
        cov.save()
    tmp = out + '.tmp'
    with open(tmp, 'w') as f:
        json.dump(res, f, default=repr)
    os.replace(tmp, out)


if __name__ == '__main__':
    main(sys.argv[1:])
