"""One shard of one property check, in its own process.
usage: python -m vf.worker <PROP> <tier> <seed> <shard> <nshards> <budget_s> <outfile>"""
import importlib
import json
import os
import sys
import traceback


def main(argv):
    prop, tier, seed, shard, nshards, budget_s, out = argv
    seed, shard, nshards, budget_s = int(seed), int(shard), int(nshards), float(budget_s)
    from vf import core
    res = {'status': 'ok'}
    try:
        core.use_repo()
        mod = importlib.import_module('vf.props.' + prop.lower())
        ctx = core.Ctx(prop, tier, seed, shard, nshards, budget_s)
        mod.run_shard(ctx)
        res.update(ctx.acc.dump())
    except core.Inconclusive as e:
        res = {'status': 'inconclusive', 'reason': str(e)}
    except BaseException as e:  # harness bug or monitor lost its target: never a verdict
        res = {'status': 'inconclusive',
               'reason': f'worker error {type(e).__name__}: {e}',
               'trace': traceback.format_exc()[-4000:]}
    tmp = out + '.tmp'
    with open(tmp, 'w') as f:
        json.dump(res, f, default=repr)
    os.replace(tmp, out)


if __name__ == '__main__':
    main(sys.argv[1:])
