"""Developer tool: run a check over several seeds and list the distinct unexplained signatures.
usage: python -m vf.sweep <PROP> <tier> <seed_from> <seed_to>"""
import glob
import json
import os
import subprocess
import sys

from vf import core


def main():
    prop, tier, a, b = sys.argv[1], sys.argv[2], int(sys.argv[3]), int(sys.argv[4])
    seen = {}
    rcs = {}
    for seed in range(a, b + 1):
        env = dict(os.environ, VERIF_SEED=str(seed))
        p = subprocess.run([sys.executable, '-m', 'vf.run', prop, '--tier', tier], cwd=core.VERIF, env=env,
                           capture_output=True, text=True)
        rcs[seed] = p.returncode
        tail = [l for l in p.stdout.splitlines() if l.startswith(('HELD', 'INCONCLUSIVE'))]
        print(f'seed {seed}: exit {p.returncode} {tail[:2]}', flush=True)
        for f in glob.glob(os.path.join(core.VERIF, 'replays', prop, '*.json')):
            w = json.load(open(f))
            k = core.canon(w['signature'])
            if k not in seen:
                seen[k] = (seed, w)
                wit = w['witnesses'][0] if w['witnesses'] else {}
                print('  NEW', k, '| n=', w['count'], '|', core.canon(wit)[:500], flush=True)
            os.remove(f)
    print('distinct unexplained signatures:', len(seen), 'exit codes:', rcs)


if __name__ == '__main__':
    main()
