"""Parent runner: shards a property check over worker processes, merges what the monitors
observed, classifies failures against known_findings.json, enforces reach floors, writes
evidence and replays, and prints the verdict.

usage: python -m vf.run <PROP> [--tier quick|thorough] [--shards N] [--budget S]
       python -m vf.run <PROP> --replay <path>
exit 0 = held on everything explored (listed findings only); 1 = violation; 2 = inconclusive."""
import argparse
import importlib
import json
import os
import shutil
import subprocess
import sys
import time

from vf import core

PY = sys.executable


def merge(results):
    m = {'evaluations': 0, 'keys': set(), 'counters': {}, 'sets': {}, 'maxes': {},
         'failures': {}, 'samples': [], 'notes': []}
    for r in results:
        m['evaluations'] += r['evaluations']
        m['keys'].update(r['keys'])
        for k, v in r['counters'].items():
            m['counters'][k] = m['counters'].get(k, 0) + v
        for k, v in r['sets'].items():
            s = m['sets'].setdefault(k, set())
            for x in v:
                s.add(tuple(x) if isinstance(x, list) else x)
        for k, v in r['maxes'].items():
            if v > m['maxes'].get(k, float('-inf')):
                m['maxes'][k] = v
        for f in r['failures']:
            k = core.canon(f['sig'])
            e = m['failures'].setdefault(k, {'sig': f['sig'], 'n': 0, 'witnesses': []})
            e['n'] += f['n']
            if len(e['witnesses']) < 3:
                e['witnesses'].extend(f['witnesses'][:3 - len(e['witnesses'])])
        m['notes'].extend(r.get('notes', []))
    # samples: round-robin over shards so that different case classes show up
    pools = [list(r['samples']) for r in results]
    while any(pools) and len(m['samples']) < 8:
        for p in pools:
            if p and len(m['samples']) < 8:
                m['samples'].append(p.pop(0))
    return m


def floor_value(m, name):
    if name == 'evaluations':
        return m['evaluations']
    if name == 'distinct':
        return len(m['keys'])
    if name.startswith('len:'):
        return len(m['sets'].get(name[4:], ()))
    if name.startswith('max:'):
        return m['maxes'].get(name[4:], 0)
    return m['counters'].get(name, 0)


def main(argv=None):
    ap = argparse.ArgumentParser()
    ap.add_argument('prop')
    ap.add_argument('--tier', default=os.environ.get('VERIF_TIER', 'quick'), choices=['quick', 'thorough'])
    ap.add_argument('--shards', type=int, default=None)
    ap.add_argument('--budget', type=float, default=None)
    ap.add_argument('--replay', default=None)
    a = ap.parse_args(argv)
    prop = a.prop.upper()
    seed = int(os.environ.get('VERIF_SEED', '0') or 0)
    t0 = time.time()

    try:
        core.use_repo()
        mod = importlib.import_module('vf.props.' + prop.lower())
    except core.Inconclusive as e:
        print(f'INCONCLUSIVE property={prop} reason={e}')
        write_evidence(prop, a.tier, seed, 'exploration', {'evaluations': 0, 'distinct_nontrivial': 0,
                       'rule': 'n/a', 'samples': [], 'verdict': 'inconclusive', 'reason': str(e)}, [], time.time() - t0, 0)
        return 2

    if a.replay:
        return mod.replay(a.replay)

    nshards, budget = mod.BUDGET[a.tier]
    if a.shards:
        nshards = a.shards
    if os.environ.get('VERIF_BUDGET_S'):
        budget = float(os.environ['VERIF_BUDGET_S'])
    if a.budget:
        budget = a.budget
    nshards = max(1, min(nshards, (os.cpu_count() or 4)))

    work = os.path.join(core.VERIF, '.work', f'{prop}-{a.tier}-{os.getpid()}')
    shutil.rmtree(work, ignore_errors=True)
    os.makedirs(work)
    env = dict(os.environ)
    env['PYTHONHASHSEED'] = env.get('VERIF_HASHSEED', '0')
    env['PYTHONPATH'] = core.VERIF
    env['VERIF_REPO'] = core.REPO
    env['PYTHONDONTWRITEBYTECODE'] = '1'
    procs = []
    for s in range(nshards):
        out = os.path.join(work, f'shard-{s}.json')
        log = open(os.path.join(work, f'shard-{s}.log'), 'w')
        p = subprocess.Popen([PY, '-m', 'vf.worker', prop, a.tier, str(seed), str(s), str(nshards), str(budget), out],
                             cwd=core.VERIF, env=env, stdout=log, stderr=subprocess.STDOUT)
        procs.append((p, out, log))
    # generous wall-clock watchdog; its firing is inconclusive, never a verdict
    deadline = time.time() + budget * 3 + 120
    results, inconclusive = [], []
    for p, out, log in procs:
        try:
            p.wait(timeout=max(1, deadline - time.time()))
        except subprocess.TimeoutExpired:
            p.kill()
            p.wait()
            inconclusive.append(f'watchdog fired on {os.path.basename(out)}')
        log.close()
        if os.path.exists(out):
            with open(out) as f:
                r = json.load(f)
            if r.get('status') == 'ok':
                results.append(r)
            else:
                inconclusive.append(r.get('reason', '?'))
                if r.get('trace'):
                    sys.stderr.write(r['trace'] + '\n')
        elif not inconclusive or 'watchdog' not in inconclusive[-1]:
            tail = ''
            try:
                tail = open(log.name).read()[-1500:]
            except Exception:
                pass
            inconclusive.append(f'worker {os.path.basename(out)} died (exit {p.returncode}) {tail!r}')

    m = merge(results) if results else {'evaluations': 0, 'keys': set(), 'counters': {}, 'sets': {}, 'maxes': {},
                                        'failures': {}, 'samples': [], 'notes': []}
    shutil.rmtree(work, ignore_errors=True)

    # classify failures ------------------------------------------------------------------
    known, unknown = {}, []
    for k, e in sorted(m['failures'].items()):
        fid = core.explained_by(prop, e['sig'])
        if fid:
            if os.environ.get('VERIF_SHOWSIGS'):
                sys.stderr.write(f'  explained-by {fid}: {core.canon(e["sig"])} n={e["n"]}\n')
            kk = known.setdefault(fid, {'n': 0, 'sigs': 0, 'example': e['witnesses'][0] if e['witnesses'] else None})
            kk['n'] += e['n']
            kk['sigs'] += 1
        else:
            unknown.append(e)
    findings = {f['id']: f for f in core.load_findings()}
    for fid, kk in sorted(known.items()):
        what = findings[fid].get('mechanism', '')
        print(f'KNOWN-FINDING: property={prop} {fid} {what} (n={kk["n"]})')

    rdir = os.path.join(core.VERIF, 'replays', prop)
    viol_lines = []
    if unknown:
        os.makedirs(rdir, exist_ok=True)
        for e in unknown[:int(os.environ.get("VERIF_MAXVIOL", "20"))]:
            path = os.path.join(rdir, core.digest(core.canon(e['sig'])) + '.json')
            with open(path, 'w') as f:
                json.dump({'property': prop, 'seed': seed, 'tier': a.tier, 'signature': e['sig'], 'count': e['n'],
                           'witnesses': e['witnesses']}, f, indent=1, default=repr)
            viol_lines.append(f'VIOLATION property={prop} replay={path}')
            w = e['witnesses'][0] if e['witnesses'] else {}
            sys.stderr.write(f'  signature={core.canon(e["sig"])} n={e["n"]} witness={core.canon(w)[:600]}\n')

    # a shard that ran out of its (generous) wall-clock budget did not produce the workload the verdict is about
    cut = [n for n in m['notes'] if 'time budget hit' in n]
    if cut:
        inconclusive.append(f'time budget hit in {len(cut)} shard(s): the workload was not completed ({cut[0][:80]})')

    # reach floors -----------------------------------------------------------------------
    floors = mod.floors(a.tier) if hasattr(mod, 'floors') else {}
    floor_report = {}
    for name, fl in floors.items():
        v = floor_value(m, name)
        floor_report[name] = {'observed': v, 'floor': fl}
        if v < fl:
            inconclusive.append(f'reach floor not met: {name} observed {v} < {fl}')

    # skip ceilings: a case the harness could not decide (unsupported, not interpretable, rejected ...) is not evidence; when
    # such cases exceed what the unchanged tree produces (with head-room) the run did not reach what it claims to have explored
    ceilings = mod.ceilings(a.tier) if hasattr(mod, 'ceilings') else {}
    ceiling_report = {}
    for name, frac in ceilings.items():
        if name.endswith('*'):
            v = sum(n for k, n in m['counters'].items() if k.startswith(name[:-1]))
        else:
            v = m['counters'].get(name, 0)
        limit = int(frac * max(m['evaluations'], 1)) + 5
        ceiling_report[name] = {'observed': v, 'ceiling': limit}
        if v > limit:
            inconclusive.append(f'skip ceiling exceeded: {name} observed {v} > {limit} of {m["evaluations"]} evaluations')

    # evidence ---------------------------------------------------------------------------
    cov = {
        'evaluations': m['evaluations'],
        'distinct_nontrivial': len(m['keys']),
        'rule': getattr(mod, 'RULE', ''),
        'samples': m['samples'],
        'counters': dict(sorted(m['counters'].items())),
        'observed_sets': {k: (sorted(v, key=repr) if len(v) <= 60 else {'size': len(v), 'first': sorted(v, key=repr)[:25]})
                          for k, v in sorted(m['sets'].items())},
        'maxima': m['maxes'],
        'reach_floors': floor_report,
        'skip_ceilings': ceiling_report,
        'known_findings_hit': {fid: kk['n'] for fid, kk in sorted(known.items())},
        'unexplained_signatures': [e['sig'] for e in unknown[:20]],
        'workers': len(results),
        'verdict': 'violated' if unknown else ('inconclusive' if inconclusive else 'held'),
        'inconclusive_reasons': inconclusive[:10],
        'repo': core.REPO,
    }
    if hasattr(mod, 'coverage_extra'):
        cov.update(mod.coverage_extra(m, a.tier))
    if m['notes']:
        cov['notes'] = m['notes'][:20]
    write_evidence(prop, a.tier, seed, mod.LEVEL, cov, getattr(mod, 'ASSUMPTIONS', []), time.time() - t0, len(unknown))

    if unknown:
        for l in viol_lines:
            print(l)
        return 1
    if inconclusive:
        for r in inconclusive[:10]:
            print(f'INCONCLUSIVE property={prop} reason={r}')
        return 2
    print(f'HELD property={prop} tier={a.tier} seed={seed} evaluations={m["evaluations"]} '
          f'distinct_nontrivial={len(m["keys"])} known_findings={len(known)} wall_s={time.time() - t0:.1f}')
    return 0


def write_evidence(prop, tier, seed, level, cov, assumptions, wall, violations):
    # evidence/ describes /repo only; a self-test run against a scratch copy (VERIF_REPO) must not overwrite it
    d = os.path.join(core.VERIF, 'evidence') if core.REPO == '/repo' else os.path.join(core.VERIF, '.work', 'evidence-selftest')
    os.makedirs(d, exist_ok=True)
    ev = {'property_id': prop, 'tier': tier, 'seed': seed, 'level': level, 'coverage': cov,
          'assumptions': assumptions, 'wall_s': round(wall, 2), 'violations': violations}
    tmp = os.path.join(d, prop + '.json.tmp')
    with open(tmp, 'w') as f:
        json.dump(ev, f, indent=1, default=repr, sort_keys=False)
    os.replace(tmp, os.path.join(d, prop + '.json'))


if __name__ == '__main__':
    sys.exit(main())
