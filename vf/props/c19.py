"""C19 - syntax errors point at the offending token and suggestions really help (mindsdb dialect).

Monitor: M2 error-callback recorder gives the ground-truth offending token (the parser's own first error() call of
the outermost parse: an LALR parser never shifts an erroneous token); M3 token tap gives source spans.
Oracle: the caret run of the message, laid over the last reproduced source line, covers exactly
source[tok.index:tok.end] (or the position just after the last token at EOF); the reproduced lines equal the source
lines up to white space and comments; every concrete suggestion, inserted before or substituted for the offending
token, lets the parser get past that position (re-run under M2).  Lexer errors: the caret is under the illegal char."""
import re

from vf import core, monitors
from vf.gen import sqlgen
from vf.props._parsework import base_statements

ID = 'C19'
LEVEL = 'exploration'
TECHNIQUE = 'runtime monitor: parser error() callback + token spans as ground truth for the message arithmetic; suggestions re-checked by re-parsing under the same monitor'
RULE = ('valid statements (corpus + templates) with one token deleted / duplicated / replaced / inserted or truncated, re-laid-out '
        'over several lines with indentation, blank lines, -- and /* */ comments, tabs, leading white space; illegal characters '
        'spliced in; non-trivial = rejected input with a located error; distinct by (layout class, offending token type, text)')
RULE += '; also: CRLF layouts, exotic separators, 30 000 cases in the quick tier'
ASSUMPTIONS = ['the first token the grammar cannot accept = the token of the parser\'s first error() call',
               'rejections raised by a grammar action (no error() call, e.g. "Duplicate LIMIT clause") carry no location and are out of scope',
               'reproduced lines may differ from the source in leading/inner white space and comments']
BUDGET = {'quick': (8, 240), 'thorough': (16, 1800)}


def floors(tier):
    return {'located_checked': 3000, 'eof_checked': 200, 'multiline_checked': 1000, 'comment_layouts': 300,
            'suggestions_checked': 300, 'lexer_errors_checked': 100}


def relayout(text, toks, rng):
    """Spread the statement over several lines at token boundaries; returns (new_text, layout label)."""
    k = rng.random()
    if k < 0.25 or len(toks) < 3:
        lead = rng.choice(['', ' ', '   ', '\t'])
        return lead + text, 'single-line' + ('+lead' if lead else '')
    out = ''
    pos = 0
    label = set()
    if rng.random() < 0.3:
        out += rng.choice(['\n', '   \n', '-- header comment\n', '/* header\n   comment */\n'])
        label.add('prologue')
    for i, t in enumerate(toks):
        gap = text[pos:t[2]]
        if i > 0:
            q = rng.random()
            if q < 0.18:
                gap = '\n' + rng.choice(['', '  ', '    ', '\t'])
                label.add('newline')
            elif q < 0.22:
                gap = '\n\n  '
                label.add('blank-line')
            elif q < 0.27:
                gap = ' -- note\n' + rng.choice(['', '   '])
                label.add('line-comment')
            elif q < 0.31:
                gap = ' /* c */ '
                label.add('block-comment')
            elif q < 0.33:
                gap = ' /* multi\n line */ '
                label.add('block-comment-ml')
            elif gap == '':
                gap = ''
        out += gap + text[t[2]:t[3]]
        pos = t[3]
    out += text[pos:]
    return out, '+'.join(sorted(label)) or 'single-line'


def strip_comments_ws(s):
    s = re.sub(r'/\*[\s\S]*?\*/', ' ', s)
    s = re.sub(r'--[^\n]*', ' ', s)
    return ' '.join(s.split())


def parse_message(msg):
    lines = msg.split('\n')
    src = [l[1:] for l in lines if l.startswith('>')]
    caret = [l for l in lines if re.fullmatch(r'-*\^+', l)]
    sugg = []
    for l in lines:
        if l.startswith('Possible inputs: ') or l.startswith('Expected symbol: '):
            sugg = re.findall(r'"((?:[^"\\]|\\.)*?)"(?:, |$)', l.split(': ', 1)[1])
    return lines[0] if lines else '', src, caret[-1] if caret else None, sugg


def source_lines_clean(text):
    """Source split into lines with comments blanked (keeping line structure)."""
    def blank(m):
        return re.sub(r'[^\n]', ' ', m.group())
    t = re.sub(r'/\*[\s\S]*?\*/', blank, text)
    t = re.sub(r'--[^\n]*', blank, t)
    return t.split('\n')


def judge(text, rec, exc):
    """Returns list of (sig, detail) for a rejected input."""
    out = []
    msg = str(exc)
    head, src, caret, sugg = parse_message(msg)

    def nl_class(toks_):
        # which KINDS of token hold a line break (the listed mechanism is about the kinds that can today)
        kinds_ = sorted({t[0] for t in toks_ if '\n' in stripped[t[2]:t[3]]})
        return 'newline-in-token:' + '+'.join(kinds_) if kinds_ else 'plain'
    ec = rec.error_calls[0]
    stripped = re.sub(r'[\s;]+$', '', text)
    if caret is None or not src:
        if not rec.tokens:
            return []           # empty input: nothing to point at
        if head.startswith(('Syntax error', 'Empty input')):
            return [({'defect': 'no-location-in-message'}, {'message': msg[:300]})]
        # error() was called, yet the message is some other ParsingException: raised by a grammar action while the
        # suggestion builder was re-parsing, which aborted the construction of the syntax-error message
        return [({'defect': 'reporter-aborted-by-action-exception'}, {'message': msg[:300]})]
    L = src[-1]
    start = caret.count('-') - 1
    n = caret.count('^')
    if ec['eof']:
        toks = rec.tokens
        if n != 1 or start != len(L):
            out.append(({'defect': 'eof-caret-not-after-last-token', 'token_class': nl_class(toks)},
                        {'line': L, 'caret': caret}))
        lineno = toks[-1][4] if toks else 1
    else:
        tok_text = stripped[ec['index']:ec['end']]
        marked = L[start:start + n]
        if marked != tok_text:
            kind = 'caret-length' if L[start:start + len(tok_text)] == tok_text else 'caret-offset'
            out.append(({'defect': kind, 'token_class': 'rewritten' if tok_text != str(ec['value']) else nl_class([t for t in rec.tokens if t[2] <= ec['index']])},
                        {'line': L, 'caret': caret, 'marked': marked, 'offending_token_text': tok_text, 'token_type': ec['type']}))
        lineno = ec['lineno']
    # reproduced lines vs source: the message groups tokens by the lexer's own line numbers; each shown line must consist
    # of exactly the source texts of the tokens of that lexer line, in order, up to white space (comments are not tokens)
    groups = {}
    for t in rec.tokens:
        groups.setdefault(t[4], []).append(stripped[t[2]:t[3]])
    linenos = sorted(k for k in groups if k <= lineno)
    want = [''.join(''.join(groups[k]).split()) for k in linenos[-len(src):]]
    have = [''.join(l.split()) for l in src]
    if want != have:
        out.append(({'defect': 'reproduced-lines-differ', 'token_class': nl_class([t for t in rec.tokens if t[4] <= lineno])},
                    {'expected_no_ws': want[-3:], 'shown_no_ws': have[-3:]}))
    return out, sugg


def first_error_progress(text):
    """(accepted?, number of tokens the parser consumed before its first error)"""
    from mindsdb_sql import parse_sql
    with monitors.monitored_parse() as rec:
        try:
            parse_sql(text, 'mindsdb')
            return True, 10 ** 9
        except Exception as e:
            if not rec.error_calls:
                return False, None      # rejected by an action or the lexer: cannot tell
            ec = rec.error_calls[0]
            if ec['eof']:
                return False, len(rec.tokens)
            return False, sum(1 for t in rec.tokens if t[2] < ec['index'])


def check_suggestions(text, rec, sugg):
    """Each concrete suggestion must help: insert before, or substitute for, the offending token."""
    bad = []
    ec = rec.error_calls[0]
    stripped = re.sub(r'[\s;]+$', '', text)
    base = len(rec.tokens) if ec['eof'] else sum(1 for t in rec.tokens if t[2] < ec['index'])
    checked = 0
    for s in sugg:
        if s.startswith('[') and s.endswith(']'):
            continue
        checked += 1
        if ec['eof']:
            variants = [stripped + ' ' + s]
        else:
            # blanks on both sides: the suggestion is a token of its own (the input may read `0.5FIELDS`)
            variants = [stripped[:ec['index']] + ' ' + s + ' ' + stripped[ec['index']:],
                        stripped[:ec['index']] + ' ' + s + ' ' + stripped[ec['end']:]]
        ok = False
        for v in variants:
            acc_, prog = first_error_progress(v)
            if acc_ or prog is None or prog > base:
                ok = True
                break
        if not ok:
            mode = 'single' if len(sugg) == 1 else 'eof-list' if ec['eof'] else 'checked-list'
            if mode == 'checked-list':
                # the library validates a listed suggestion by its own criterion: the WHOLE query becomes valid when the
                # suggestion is inserted before the offending token or put in place of the token BEFORE it.  A suggestion
                # that fails the property but passes that criterion is the listed mechanism; one that fails both is new.
                prev = [t for t in rec.tokens if t[2] < ec['index']]
                lib_variants = [stripped[:ec['index']] + ' ' + s + ' ' + stripped[ec['index']:]]
                if prev:
                    lib_variants.append(stripped[:prev[-1][2]] + ' ' + s + ' ' + stripped[prev[-1][3]:])
                lib_ok = any(first_error_progress(v)[0] for v in lib_variants)
                mode = 'checked-list:passes-library-criterion' if lib_ok else 'checked-list:fails-library-criterion'
            bad.append((s, mode))
    return checked, bad


def message_of(text):
    from mindsdb_sql import parse_sql
    try:
        parse_sql(text, 'mindsdb')
        return ['accepted', '']
    except Exception as e:
        return [type(e).__name__, str(e)]


def run_shard(ctx):
    from mindsdb_sql import parse_sql
    from sly.lex import LexError
    monitors.install_parser_monitors()
    acc = ctx.acc
    base = [s for (l, s) in base_statements(ctx.seed, 1500 if ctx.tier == 'quick' else 8000)]
    vocab = sqlgen.keyword_vocab(monitors.lexer_classes()['mindsdb'])
    n = 30000 if ctx.tier == 'quick' else 600000
    for j in range(n):
        if not ctx.mine(j):
            continue
        if ctx.out_of_time():
            acc.notes.append(f'shard {ctx.shard}: time budget hit at case {j}')
            break
        r = core.rng_for(ctx.seed, 'C19', j)
        s = base[r.randrange(len(base))]
        try:
            toks = monitors.lex_all(s, 'mindsdb')
        except Exception:
            continue
        if not toks:
            continue
        illegal = r.random() < 0.06
        if illegal:
            t = toks[r.randrange(len(toks))]
            ch = r.choice(['#', '^', '&', '|', '\\', '§', '\x00', '´', '\x0c', '\x85', '\u2028', '\x1c'])
            text = s[:t[2]] + ch + ' ' + s[t[2]:]
            layout = 'illegal-char'
            if r.random() < 0.5:
                try:
                    t2 = monitors.lex_all(s, 'mindsdb')
                    text2, layout2 = relayout(s, t2, r)
                    # splice the illegal char into the re-laid-out text at a token boundary
                    t3 = monitors.lex_all(text2, 'mindsdb')
                    tt = t3[r.randrange(len(t3))]
                    text = text2[:tt[2]] + ch + ' ' + text2[tt[2]:]
                    layout = 'illegal-char+' + layout2
                except Exception:
                    pass
        else:
            ml, text = sqlgen.mutate(s, toks, r, vocab)
            try:
                t2 = monitors.lex_all(text, 'mindsdb')
            except Exception:
                continue
            text, layout = relayout(text, t2, r)
        if '\n' in text and r.random() < 0.15:
            text = text.replace('\n', '\r\n')      # Windows line ends
            layout += '+crlf'
        acc.ev()
        with monitors.monitored_parse() as rec:
            try:
                parse_sql(text, 'mindsdb')
                exc = None
            except Exception as e:
                exc = e
        if exc is None:
            acc.count('accepted')
            continue
        if isinstance(exc, LexError):
            acc.count('lexer_errors_checked')
            msg = str(exc)
            head, src, caret, _ = parse_message(msg)
            m = re.match(r"Illegal character (.+):$", head)
            bad = None
            if not m or caret is None or not src:
                bad = 'lexer-message-shape'
            else:
                try:
                    ch = eval(m.group(1))
                except Exception:
                    ch = None
                pos = caret.count('-') - 1
                L = src[-1]
                if ch is None or pos >= len(L) or L[pos] != ch:
                    bad = 'lexer-caret-not-under-char'
                else:
                    # the shown line must be the source line holding the illegal char
                    stripped = re.sub(r'[\s;]+$', '', text)
                    if L not in stripped.split('\n'):
                        bad = 'lexer-line-not-source-line'
            if bad:
                acc.fail({'defect': bad, 'layout': 'multi-line' if '\n' in text else 'single-line'},
                         {'text': text, 'message': msg[:400]})
            acc.key('lex', layout, text)
            continue
        if type(exc).__name__ != 'ParsingException':
            acc.count('internal_error_is_C02')
            continue
        if not rec.error_calls:
            # rejected by a check inside a grammar action, which raises ParsingException itself: the reporter never runs, the message has
            # no source line and no caret.  Listed by mechanism (C19-F8) with the checks that exist today; another one is reported.
            acc.count('action_rejections_no_location')
            c_ = monitors.classify_exception(exc)
            mclass = re.sub(r"[`'\"].*", '', re.sub(r'\d+', 'N', str(exc).split('\n')[0])).strip()[:48]
            acc.fail({'defect': 'rejected-without-location', 'raised_in': f"{c_['file'].split('/')[-1]}:{c_['func']}", 'message_class': mclass},
                     {'text': text, 'message': str(exc)[:300]})
            continue
        res = judge(text, rec, exc)
        if isinstance(res, list):
            fails, sugg = res, []
        else:
            fails, sugg = res
        acc.count('located_checked')
        ec = rec.error_calls[0]
        if ec['eof']:
            acc.count('eof_checked')
        if '\n' in text.strip():
            acc.count('multiline_checked')
        if 'comment' in layout or 'prologue' in layout:
            acc.count('comment_layouts')
        acc.add('layouts', layout)
        acc.key(layout, ec['type'], text)
        lclass = ('multi-line' if '\n' in text.strip() else 'single-line') + ('+comments' if 'comment' in layout else '')
        for sig, det in fails:
            sig = dict(sig, layout=lclass)
            det.update({'text': text, 'message': str(exc)[:500]})
            acc.fail(sig, det)
        if sugg:
            checked, bad = check_suggestions(text, rec, sugg)
            acc.count('suggestions_checked', checked)
            for b, mode in bad:
                acc.fail({'defect': 'suggestion-does-not-help', 'suggestion_kind': 'word' if re.fullmatch(r'[A-Za-z_ ]+', b) else 'symbol' if len(b) <= 3 else 'pattern',
                          'mode': mode, 'pattern': b if not re.fullmatch(r'[A-Za-z_ ]+', b) and len(b) > 3 else '-'},
                         {'text': text, 'suggestion': b, 'all_suggestions': sugg, 'message': str(exc)[:400]})
        if not fails and len(acc.samples) < 5 and j % 37 == 0 and '\n' in text:
            acc.sample({'text': text[:300], 'message': str(exc)[:400], 'offending': [ec['type'], ec['index'], ec['end']], 'layout': layout})


def replay(path):
    import json
    from mindsdb_sql import parse_sql
    w = json.load(open(path))
    for wit in w['witnesses']:
        print(repr(wit['text']))
        try:
            parse_sql(wit['text'], 'mindsdb')
        except Exception as e:
            print(str(e))
    return 1
