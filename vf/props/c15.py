"""C15 - a time-series model receives exactly its context window plus the selected rows.

Workload: joins of a data table with a time-series model: time condition in {none, >, >=, =, <, <=, BETWEEN, > LATEST,
= LATEST} x partition filters x window 2..4 x 0-2 group-by columns x model left/right x forbidden extras (ORDER BY,
GROUP BY, OFFSET, foreign column) x random table contents with unique row ids, ties on the order column, NULL times,
partitions shorter than the window.  Monitor: boundary of plan_query; the reference interpreter executes the fetch /
partition steps on sqlite3 and logs them.  Oracle: a 25-line window model over the generated rows (any tie-break among
equally recent rows is admissible); output_time_filter = the user's time condition; LIMIT applied after the join;
forbidden clauses raise PlanningException."""
import copy
import sqlite3

from vf import core, monitors
from vf.gen import fedgen
from vf.ref.plan_interp import Interp, MissingTable, NotInterpretable

ID = 'C15'
LEVEL = 'translation_validation'
TECHNIQUE = 'reference interpreter of the plan\'s fetch / map-reduce steps over sqlite3 vs an executable window model on the same rows (unique row ids); structural checks of output filter and LIMIT placement'
RULE = ('cases = generated time-series joins (9 time-condition forms x partition filter x 3 models with 0/1/2 group-by columns x model side x '
        'LIMIT) x random series tables; non-trivial = some partition has more rows before the bound than the window, or ties / NULL times are '
        'present; distinct by (query, data digest)')
RULE += '; also: the conjunction written flat / right-nested / left-nested / each conjunct parenthesised; a LATEST marker in a fetch query is a violation'
ASSUMPTIONS = ['rows are identified by a unique id column', 'among equally recent rows any choice is admissible',
               'for an exact time `ts = v` the output filter may be `=` or `>` (the repository\'s own test pins `>`)',
               'partition columns contain no NULLs']
BUDGET = {'quick': (8, 270), 'thorough': (16, 1800)}
WINDOW = {'ts1': 3, 'ts0': 2, 'ts2': 4, 'ts3': 2}
GROUPS = {'ts1': ['g'], 'ts0': [], 'ts2': ['g', 'h'], 'ts3': ['gts']}     # (ts3: a partition column whose NAME ends with the order column's name)


def floors(tier):
    return {'windows_checked': 1200, 'len:time_ops': 9, 'len:models': 3, 'rejections_checked': 100, 'limit_after_join_checked': 100, 'branch_plans_over_ten_steps': 100, 'subselect_side_checked': 60}


def ceilings(tier):
    # fractions of all evaluations; the unchanged tree stays below about two thirds of each
    return {'not_interpretable': 0.02, 'internal_error_is_C09': 0.01}


def make_rows(r):
    rows = []
    n = r.randint(0, 14)
    for i in range(n):
        ts = None if r.random() < 0.12 else r.choice([1, 2, 3, 3, 4, 4, 5, 6, 7, 8])
        g_ = r.choice([1, 1, 2, 3])
        rows.append((i + 1, ts, g_, r.choice([1, 2]), r.choice([10, 20, None]), r.choice([0, 1]), g_))      # (gts: the same values as g)
    return rows


def make_db(rows):
    db = sqlite3.connect(':memory:')
    db.execute("attach ':memory:' as int1")
    db.execute('create table int1.series (rid INTEGER, ts INTEGER, g INTEGER, h INTEGER, v INTEGER, other INTEGER, gts INTEGER)')
    db.executemany('insert into int1.series values (?,?,?,?,?,?,?)', rows)
    return db


def bounds(op, val):
    """(cond(ts) -> bool for the rows the user selected, before(ts) -> bool for the rows preceding the lower bound, or None)"""
    if op == 'none':
        return (lambda t: True), None
    if op == '>':
        return (lambda t: t > val), (lambda t: t <= val)
    if op == '>=':
        return (lambda t: t >= val), (lambda t: t < val)
    if op == '<':
        return (lambda t: t < val), None
    if op == '<=':
        return (lambda t: t <= val), None
    if op == 'between':
        lo, hi = val
        return (lambda t: lo <= t <= hi), (lambda t: t < lo)
    if op == '=':
        return (lambda t: False), (lambda t: t <= val)
    if op in ('>latest', '=latest'):
        return (lambda t: False), (lambda t: True)
    raise ValueError(op)


def judge_window(rows, model, op, val, part_filter, got_ids):
    """Window model R7.  Returns list of (sig, detail)."""
    out = []
    window = WINDOW[model]
    groups = GROUPS[model]
    gi = {'g': 2, 'h': 3, 'gts': 6}
    sel = [r for r in rows if part_filter is None or r[2] == part_filter]     # non-time filters
    parts = {}
    for r in sel:
        parts.setdefault(tuple(r[gi[c]] for c in groups), []).append(r)
    cond, before = bounds(op, val)
    got = set(got_ids)
    all_ids = {r[0] for r in rows}
    flags = set()
    if not got <= all_ids:
        out.append(({'part': 'unknown-rows'}, {'got': sorted(got - all_ids)}))
    allowed = set()
    for key, prow in parts.items():
        S = [r for r in prow if r[1] is not None]
        if len(S) != len(prow):
            flags.add('null-times')
        C = {r[0] for r in S if cond(r[1])}
        B = [r for r in S if before is not None and before(r[1])]
        allowed |= {r[0] for r in S}
        G = {r[0] for r in S if r[0] in got}
        if not C <= G:
            out.append(({'part': 'range-rows-missing'}, {'partition': key, 'missing': sorted(C - G)}))
        W = G - C
        bad_w = W - {r[0] for r in B}
        if bad_w:
            out.append(({'part': 'rows-outside-range-and-window'}, {'partition': key, 'extra': sorted(bad_w)}))
        want = min(window, len(B))
        if len(B) > window:
            flags.add('long-partition')
        if len(B) < window and B:
            flags.add('short-partition')
        Wb = [r for r in B if r[0] in W]
        if len(Wb) != want:
            out.append(({'part': 'window-size'}, {'partition': key, 'expected': want, 'got': len(Wb), 'window': window}))
        elif Wb:
            rest = [r for r in B if r[0] not in W]
            if rest and max(r[1] for r in rest) > min(r[1] for r in Wb):
                out.append(({'part': 'window-not-most-recent'}, {'partition': key, 'window_rows': sorted(r[0] for r in Wb)}))
            if rest and max(r[1] for r in rest) == min(r[1] for r in Wb):
                flags.add('ties-at-window-edge')
    extra = got - allowed
    if extra:
        # rows with NULL time, or of partitions excluded by the partition filter
        nullt = {r[0] for r in rows if r[1] is None}
        out.append(({'part': 'null-time-rows-handed-over' if extra & nullt else 'partition-filter-not-applied'}, {'extra': sorted(extra)}))
    return out, flags


def data_step_rows(db, plan):
    """Interpret the plan up to the data step (dataframe of the apply-timeseries step); returns (row ids, log)."""
    apply_i = next(i for i, s in enumerate(plan.steps) if type(s).__name__ == 'ApplyTimeseriesPredictorStep')
    ap = plan.steps[apply_i]
    interp = Interp(db)
    for st in plan.steps[:apply_i]:
        interp.results[st.step_num] = interp.step(st)
    rel = interp.get(ap.dataframe)
    names = [d[2] for d in rel.descs]
    if not names:
        return [], interp.log, ap          # no partition value at all: nothing handed over
    if 'rid' not in names:
        raise NotInterpretable('row id column not in the data step result')
    k = names.index('rid')
    return [row[k] for row in interp.rows(rel)], interp.log, ap


def time_filter_ok(ap, op, val):
    f = ap.output_time_filter
    if op == 'none':
        return f is None, 'none'
    if f is None:
        return False, 'missing'
    cls = type(f).__name__
    if op == 'between':
        ok = cls == 'BetweenOperation' and str(f.args[0].parts[-1]).lower() == 'ts' and [a.value for a in f.args[1:]] == list(val)
        return ok, 'between'
    if cls != 'BinaryOperation':
        return False, cls
    col = f.args[0]
    bound = f.args[1]
    if type(col).__name__ != 'Identifier' or str(col.parts[-1]).lower() != 'ts':
        return False, 'column'
    want_op = {'>latest': '>', '=latest': '='}.get(op, op)
    ops_ok = {want_op} | ({'>'} if op == '=' else set())
    if f.op not in ops_ok:
        return False, f'op {f.op}'
    if op in ('>latest', '=latest'):
        return type(bound).__name__ == 'Latest', 'latest'
    return getattr(bound, 'value', None) == val, 'bound'


def results_read(obj, depth=0, seen=None):
    """step numbers of every Result object a step holds (attributes, lists, sub-steps, query trees)"""
    seen = seen if seen is not None else set()
    out = []
    if id(obj) in seen or depth > 12:
        return out
    seen.add(id(obj))
    if type(obj).__name__ == 'Result':
        return [obj.step_num]
    if isinstance(obj, (list, tuple)):
        for x in obj:
            out += results_read(x, depth + 1, seen)
    elif isinstance(obj, dict):
        for x in obj.values():
            out += results_read(x, depth + 1, seen)
    elif hasattr(obj, '__dict__'):
        for k, x in vars(obj).items():
            if k != 'result_data':
                out += results_read(x, depth + 1, seen)
    return out


def judge_branches(plan, limits):
    """A statement made of several forecasts (UNION branches): in the step list every step reads results of EARLIER steps only, and the
    result of every time-series join is read by its LIMIT step and by nothing else; what the statement returns passes through it."""
    out = []
    steps = plan.steps
    pos = {s.step_num: k for k, s in enumerate(steps)}
    reads = {k: [x for x in results_read([v for kk, v in vars(s).items() if kk != 'result_data'])] for k, s in enumerate(steps)}
    for k, s in enumerate(steps):
        if s.step_num != k:
            out.append(({'part': 'step-numbers-not-in-list-order'}, {'numbers': [str(x.step_num) for x in steps]}))
            break
        late = [x for x in reads[k] if pos.get(x, 10 ** 6) >= k]
        if late:
            out.append(({'part': 'step-reads-a-result-not-yet-made', 'step': type(s).__name__}, {'step_num': k, 'reads': late}))
            break
    apply_nums = {s.step_num for s in steps if type(s).__name__ == 'ApplyTimeseriesPredictorStep'}
    joins = [s for s in steps if type(s).__name__ == 'JoinStep' and set(results_read([s.left, s.right])) & apply_nums]
    lims = [s for s in steps if type(s).__name__ == 'LimitOffsetStep']
    if len(joins) != len(limits):
        out.append(({'part': 'branch-join-count', 'n': len(joins)}, {}))
        return out
    if [getattr(x.limit, 'value', x.limit) for x in lims] != limits:
        out.append(({'part': 'limit-not-after-join', 'why': 'limit-steps-of-the-branches'}, {'limits': repr([x.limit for x in lims]), 'expected': limits}))
    for j in joins:
        readers = [steps[k] for k in range(len(steps)) if j.step_num in reads[k]]
        if len(readers) != 1 or type(readers[0]).__name__ != 'LimitOffsetStep':
            out.append(({'part': 'limit-not-after-join', 'why': 'join-result-read-past-its-limit-step'},
                        {'join': j.step_num, 'readers': [f'{x.step_num}:{type(x).__name__}' for x in readers]}))
    for l_ in lims:
        if not any(l_.step_num in reads[k] for k in range(len(steps))) and l_ is not steps[-1]:
            out.append(({'part': 'limit-not-after-join', 'why': 'limit-step-result-read-by-nothing'}, {'limit_step': l_.step_num}))
    return out


def run_branches(ctx, i, r):
    """UNION [ALL] of two or three forecasts with a LIMIT each (plans of more than ten steps)."""
    from mindsdb_sql import parse_sql
    from mindsdb_sql.planner import plan_query
    from mindsdb_sql.exceptions import PlanningException
    acc = ctx.acc
    parts = []
    for _ in range(200):
        text, info = fedgen.ts_join(r)
        if info['extra'] in ('order', 'group', 'offset', 'foreign', 'having') or info['limit'] is None or text.startswith('SELECT *') != (i % 2 == 0):
            continue
        parts.append((text, info))
        if len(parts) == 2 + (i // 8) % 2:
            break
    else:
        return
    kw, desc = fedgen.catalog(r, form=[0, 1, 3, 5][(i // 8) % 4])
    text = f' {r.choice(["UNION", "UNION ALL"])} '.join(t for t, _ in parts)
    acc.ev()
    try:
        plan = plan_query(parse_sql(text, 'mindsdb'), **copy.deepcopy(kw))
    except (PlanningException, NotImplementedError) as e:
        acc.count('branches_rejected')
        return
    except Exception:
        acc.count('internal_error_is_C09')
        return
    acc.count('branch_plans_checked')
    acc.add('branch_plan_lengths', len(plan.steps))
    if len(plan.steps) > 10:
        acc.count('branch_plans_over_ten_steps')
    for sig, det in judge_branches(plan, [inf['limit'] for _, inf in parts]):
        det.update({'text': text, 'plan': [f'{s.step_num}:{type(s).__name__}' for s in plan.steps], 'catalog': desc})
        acc.fail(dict(sig, branches=len(parts)), det)


def run_subselect_side(ctx, i, r):
    """The data side written as a sub-select (`FROM (SELECT * FROM tbl WHERE .. LIMIT k) AS t JOIN model`): the planner moves the
    sub-select's conditions and row limit up and plans the join like the flat spelling with both sets of conditions and the
    SMALLER of the two limits.  Judged against the plan of that flat spelling (which the other classes judge on rows)."""
    from mindsdb_sql import parse_sql
    from mindsdb_sql.planner import plan_query
    from mindsdb_sql.exceptions import PlanningException
    acc = ctx.acc
    model = r.choice(['ts0', 'ts1', 'ts2'])
    inner = r.choice(['', '', 'ts > 4', 'g = 1', 'ts >= 2 AND g = 2', 'ts BETWEEN 3 AND 6', '5 < ts', 'g = 2 AND ts <= 5', 'ts = 4'])
    outer = r.choice(['', '', 't.ts > LATEST', 'm.ts = LATEST']) if 'ts' not in inner.replace('ts0', '') else ''
    if model == 'ts0':
        inner = ' AND '.join(c for c in inner.split(' AND ') if not c.startswith('g ')) if inner else inner
    # limits that order differently as numbers and as text (10 / 3, 25 / 4, 8 / 20), equal ones, only one of the two
    k, lim = r.choice([(None, None), (3, None), (None, 3), (10, 3), (3, 10), (25, 4), (8, 20), (20, 8), (5, 5), (100, 9), (9, 100), (1, 10)])
    # a clause the join with a time-series model does not allow, written INSIDE the sub-select (flat spelling: at the end of the statement):
    # rejected in both spellings
    forbidden = r.choice([''] * 3 + [' ORDER BY ts', ' GROUP BY g', ' GROUP BY g HAVING count(*) > 0', ' ORDER BY v DESC', ' HAVING count(*) > 1'])
    if forbidden:
        k = None
    a = f"SELECT * FROM (SELECT * FROM int1.series{' WHERE ' + inner if inner else ''}{forbidden}{' LIMIT %d' % k if k else ''}) AS t JOIN mindsdb.{model} AS m{' WHERE ' + outer if outer else ''}{' LIMIT %d' % lim if lim else ''}"
    conds = []
    for c in (inner.split(' AND ') if inner else []):
        c = c.strip()
        conds.append(c.replace('ts', 't.ts') if c[0].isdigit() else 't.' + c)
    if outer:
        conds.append(outer)
    L = min([x for x in (k, lim) if x], default=None)
    fb = forbidden.replace(' ts', ' t.ts').replace(' g', ' t.g').replace(' v ', ' t.v ')
    b = f"SELECT * FROM int1.series AS t JOIN mindsdb.{model} AS m{' WHERE ' + ' AND '.join(conds) if conds else ''}{fb}{' LIMIT %d' % L if L else ''}"
    kw, desc = fedgen.catalog(r, form=[0, 1, 3, 5][i % 4])
    acc.ev()
    out = []
    for text in (a, b):
        try:
            out.append(('plan', __import__('re').sub(r' AS t\b', '', str(plan_query(parse_sql(text, 'mindsdb'), **kw).steps))))
        except (PlanningException, NotImplementedError) as e:
            out.append(('rejected', type(e).__name__))
        except Exception as e:
            out.append(('raised', type(e).__name__ + ': ' + str(e)[:120]))
    acc.count('subselect_side_checked')
    if forbidden:
        acc.count('subselect_side_forbidden_clause')
        if out[0][0] != 'rejected':
            acc.fail({'part': 'forbidden-clause-inside-subselect-data-side-not-rejected', 'clause': forbidden.split()[0] + ' ' + forbidden.split()[1], 'outcome': out[0][0]},
                     {'text': a, 'plan': out[0][1][:800], 'catalog': desc})
        return
    if out[0][0] == 'plan' and out[1][0] == 'plan':
        acc.key('subselect-side', model, inner, outer, k, lim)
    if out[0] != out[1]:
        acc.fail({'part': 'subselect-data-side-planned-unlike-flat-spelling', 'limits': 'both' if k and lim else 'inner' if k else 'outer' if lim else 'none',
                  'outcome': out[0][0] + '/' + out[1][0]},
                 {'text': a, 'flat': b, 'plan': out[0][1][:1500], 'flat_plan': out[1][1][:1500], 'catalog': desc})


def run_shard(ctx):
    from mindsdb_sql import parse_sql
    from mindsdb_sql.planner import plan_query
    from mindsdb_sql.exceptions import PlanningException
    acc = ctx.acc
    n = 3200 if ctx.tier == 'quick' else 120000
    for i in range(n):
        if not ctx.mine(i):
            continue
        if ctx.out_of_time():
            acc.notes.append(f'shard {ctx.shard}: time budget hit at {i}')
            break
        r = core.rng_for(ctx.seed, 'C15', i)
        if i % 8 == 5:
            run_branches(ctx, i, r)
            continue
        if i % 16 == 3:
            run_subselect_side(ctx, i, r)
            continue
        text, info = fedgen.ts_join(r)
        kw, desc = fedgen.catalog(r, form=[0, 1, 3, 5][i % 4])
        # recover the concrete bound from the text
        import re
        op = info['op']
        val = None
        m = re.search(r't\.ts BETWEEN (\d+) AND (\d+)', text)
        if m:
            val = (int(m.group(1)), int(m.group(2)))
        else:
            m = re.search(r't\.ts (>=|<=|>|<|=) (\d+)', text)
            if m:
                val = int(m.group(2))
        m = re.search(r't\.(?:g|gts) = (\d+)', text)
        part_filter = int(m.group(1)) if m else None
        # (the generator also says what it wrote: conditions may be qualified by the model's alias or written value-first)
        if 'val' in info:
            val, part_filter = info['val'], info['part_value']
        acc.ev()
        try:
            plan = plan_query(parse_sql(text, 'mindsdb'), **copy.deepcopy(kw))
            exc = None
        except (PlanningException,) as e:
            plan, exc = None, e
        except NotImplementedError as e:
            plan, exc = None, e
        except Exception as e:
            if info['extra'] in ('order', 'group', 'offset', 'foreign', 'having'):
                # these clauses are to be REJECTED WITH PlanningException: any other exception is not that
                acc.count('rejections_checked')
                acc.fail({'part': 'forbidden-clause-not-rejected', 'clause': info['extra'], 'outcome': type(e).__name__}, {'text': text, 'error': str(e)[:200]})
                continue
            acc.count('internal_error_is_C09')
            continue
        forbidden = info['extra'] in ('order', 'group', 'offset', 'foreign', 'having')
        if forbidden:
            acc.count('rejections_checked')
            if exc is None or not isinstance(exc, PlanningException):
                acc.fail({'part': 'forbidden-clause-not-rejected', 'clause': info['extra']}, {'text': text, 'outcome': repr(exc)[:120] if exc else 'planned'})
            continue
        if exc is not None:
            acc.fail({'part': 'valid-query-rejected', 'op': op}, {'text': text, 'error': str(exc)[:200]})
            continue
        rows = make_rows(r)
        db = make_db(rows)
        try:
            try:
                ids, log, ap = data_step_rows(db, plan)
            except MissingTable as e:
                # e.g. a condition still qualified by the MODEL's alias, sent to the data integration
                acc.fail({'part': 'fetch-names-something-the-table-does-not-have', 'op': op, 'qualifier': info.get('qualifier'), 'value_first': info.get('value_first')},
                         {'text': text, 'why': str(e)[:200], 'plan': [str(s)[:260] for s in plan.steps][:6]})
                continue
            except NotInterpretable as e:
                if 'Latest' in str(e):
                    # LATEST is the planner's own marker: it stays in output_time_filter, no integration can evaluate it
                    acc.fail({'part': 'latest-marker-in-fetch-query', 'op': op}, {'text': text, 'why': str(e)[:120],
                                                                                   'plan': [str(s)[:260] for s in plan.steps][:6]})
                    continue
                acc.count('not_interpretable')
                acc.add('not_interpretable_why', str(e)[:60])
                continue
            except StopIteration:
                acc.fail({'part': 'no-apply-timeseries-step'}, {'text': text, 'plan': [type(s).__name__ for s in plan.steps]})
                continue
        finally:
            db.close()
        acc.count('windows_checked')
        acc.add('time_ops', op)
        acc.add('models', info['model'])
        fails, flags = judge_window(rows, info['model'], op, val, part_filter, ids)
        if len(ids) != len(set(ids)):
            fails.append(({'part': 'row-handed-over-twice'}, {'ids': sorted(ids)}))
        if flags:
            acc.key(text, core.digest(rows))
        for fl in flags:
            acc.add('data_features', fl)
        ok, why = time_filter_ok(ap, op, val)
        if not ok:
            fails.append(({'part': 'output-time-filter', 'why': why}, {'filter': repr(ap.output_time_filter)[:120]}))
        # LIMIT is applied after the join, never inside the per-partition fetches (those carry only the window LIMIT)
        if info['limit'] is not None:
            acc.count('limit_after_join_checked')
            kinds = [type(s).__name__ for s in plan.steps]
            lim_steps = [s for s in plan.steps if type(s).__name__ == 'LimitOffsetStep']
            ji = kinds.index('JoinStep') if 'JoinStep' in kinds else -1
            if not lim_steps or kinds.index('LimitOffsetStep') < ji or lim_steps[0].limit != info['limit']:
                fails.append(({'part': 'limit-not-after-join'}, {'steps': kinds}))
        for sig, det in fails:
            sig = dict(sig, op=op, model_groups=len(GROUPS[info['model']]), flags='+'.join(sorted(flags & {'ties-at-window-edge', 'null-times', 'short-partition'})))
            det.update({'text': text, 'rows': rows, 'handed_over_ids': sorted(ids), 'catalog': desc})
            acc.fail(sig, det)
        if not fails and len(acc.samples) < 5 and i % 29 == 0 and flags:
            acc.sample({'text': text, 'rows(rid,ts,g,h,v,other)': rows, 'handed_over_ids': sorted(ids), 'step_log': [list(x) for x in log][:8], 'window_model_agrees': True})


def coverage_extra(m, tier):
    return {'programs': m['counters'].get('windows_checked', 0), 'disagreements_checked': sum(e['n'] for e in m['failures'].values())}


def replay(path):
    import json
    w = json.load(open(path))
    for wit in w['witnesses']:
        print(wit['text'], '\n rows', wit['rows'], '\n ids', wit['handed_over_ids'])
    return 1
