"""C16 - queries embedded in MindsDB commands are stored verbatim.

Workload: inner query texts (generated selects, hostile literals with doubled quotes / backslashes / empty strings,
@variables, number spellings, nested parentheses, multi-line layouts with comments and blank lines, runs of spaces
inside literals) x every embedding command.  Monitor: parse_sql boundary, the stored text fields.  Oracle: an
independent tokenizer (whitespace and comments dropped, literals verbatim) applied to the stored text and to the
inner text gives the same token list; and when the inner text parses on its own, parsing the stored text gives a
structurally identical tree."""
import re

from vf import core, monitors
from vf.gen import sqlgen

ID = 'C16'
LEVEL = 'exploration'
TECHNIQUE = 'runtime monitor on parse_sql: stored raw-query fields vs the embedded source text, compared by an independent tokenizer and by re-parsing'
RULE = ('inner texts = generated SELECTs + hostile literal/variable/number/parenthesis/multi-line pools, x 16 embedding forms '
        '(CREATE MODEL|PREDICTOR|ANOMALY DETECTION MODEL, RETRAIN, FINETUNE, EVALUATE, CREATE VIEW (3 forms), CREATE JOB incl. IF query and '
        'multi-statement bodies, CREATE TRIGGER, native FROM db (query) plain and joined); non-trivial = inner text contains a string '
        'literal, variable, nested parentheses, comment or newline; distinct by (embedding, inner text)')
RULE += "; also: unpaired outer parentheses, fully wrapped queries, multi-line literals with the statement's margin, comments glued to their neighbours"
ASSUMPTIONS = ['"up to whitespace and comments": compared after an independent tokenizer drops both',
               'inner texts have balanced parentheses and contain only characters the mindsdb lexer knows']
BUDGET = {'quick': (8, 240), 'thorough': (16, 1800)}

EMBED = {
    'create_model': ('CREATE MODEL m1 FROM db1 ({x}) PREDICT y', lambda t: [t.query_str]),
    'create_model_nodb': ('CREATE MODEL m1 FROM ({x}) PREDICT y USING a = 1', lambda t: [t.query_str]),
    'create_predictor': ('CREATE PREDICTOR p1 FROM db1 ({x}) PREDICT y, z', lambda t: [t.query_str]),
    'anomaly': ('CREATE ANOMALY DETECTION MODEL am FROM db1 ({x})', lambda t: [t.query_str]),
    'retrain': ('RETRAIN m1 FROM db1 ({x})', lambda t: [t.query_str]),
    'retrain_nodb': ('RETRAIN MODEL m1 FROM ({x}) PREDICT y', lambda t: [t.query_str]),
    'finetune': ('FINETUNE m1 FROM db1 ({x})', lambda t: [t.query_str]),
    'evaluate': ('EVALUATE m1 FROM ({x})', lambda t: [t.query_str]),
    'view': ('CREATE VIEW v1 ({x})', lambda t: [t.query_str]),
    'view_as': ('CREATE VIEW IF NOT EXISTS v1 AS ({x})', lambda t: [t.query_str]),
    'view_from': ('CREATE VIEW v1 FROM db1 ({x})', lambda t: [t.query_str]),
    'job': ("CREATE JOB j1 ({x}) EVERY hour", lambda t: [t.query_str]),
    'job_if': ("CREATE JOB j1 AS ({x}) START '2023-01-01' IF ({x2})", lambda t: [t.query_str, t.if_query_str]),
    'trigger': ('CREATE TRIGGER tr1 ON db1.tbl1 ({x})', lambda t: [t.query_str]),
    'native': ('SELECT * FROM db1 ({x})', lambda t: [t.from_table.query]),
    'native_join': ('SELECT * FROM db1 ({x}) AS a JOIN db2 ({x2}) AS b ON a.id = b.id', lambda t: [t.from_table.left.query, t.from_table.right.query]),
}

HOSTILE_INNER = [
    # template markers (job variables and the like) with blanks inside, bare and INSIDE literals / quoted names: inside a literal they are text
    "select * from t where d > '{{ PREVIOUS_START_DATETIME }}' and e > {{ START_DATE }} and f = 'Hello {{  user_name  }}!' and g = \"{{ x }}\" and `{{ y }}` = 1",
    "select '{{PREVIOUS_START_DATE}}', '{ { a } }', '{{a}} {{ b }}', '${ v }', '<% t %>', '[[ w ]]' from t",
    # literals with the prefixes other SQL flavours give them, numbers of every spelling: letters and digits around quotes are text too
    "select E'a\\nb', N'x', X'00FF', b'0101', _utf8'x', U&'d', n'y', e'z' from t",
    "select * from t where a = E'it''s' and b = x'AB' and c = 1e5 and d = .5 and e = 5. and f = 0x1F and g = 1.e3",
    "select $1, :name, %s, %(n)s, $$body$$ from t",
    # statement separators that are text: inside literals and quoted names, doubled, blank between
    "select ';;', '; ;', 'a;;b', \"x;;y\", `c;;d` from t where e = ';'",
    "select ';' ; select ';;'",
    # a literal that spans lines, glued to what follows it, then single blanks between words
    "select 'Dear\nX'||name greeting from t",
    "select 'a\nb'||c d, \"e\nf\"||g h, `i\nj`.k l from t where m='n\n\no' and p q",
    "select 1 x,'two\nlines'y from t",
    "select * from t where name = ''",
    "select * from t where name = 'it''s'",
    "select '''', '''a', 'a''', 'a''''b'",
    "select 'a\\\\b', 'c\\'d', '\\\\'",
    'select "dq", "d\\"q", "it\'s"',
    "select 'x' 'y'",
    "select @v, @@sv, @'q v', @`b q`, @@global.x",
    "set @a = 1",
    "select 007, 1.50, 00.5, 10",
    "select (a + (b * (c - 1))) from t where (x in (1, 2, (3)))",
    "select f(), g(1, (2)), () from t",
    "select 'AB  01', `unit  price`, 'tab\there' from t",
    "select 'semi;colon', 'dash--dash', '/* not a comment */' from t",
    "select * from t; select 2",
    "select `back``tick` from t" if False else "select `we ird`, `Ünï` from `my tbl`",
    "select 'Ünïcode', '漢字' from t",
    "select a -- trailing comment\nfrom t",
    "select a /* block */ from /* two */ t",
    "select a,\n       b\n  from t\n where c = 'x'",
    "select *\n\nfrom t\n\n\nwhere a = 1",
    "select *\n  -- only a comment here\nfrom t",
    "\n  select 1\n",
    "select 1 where 'a' = 'a' and \"b\" = \"b\" and `c` = `c`",
    "select a->b, a->>c, a::int, a || b, a % 2, a != b, a <> b, a >= b, a <= b from t",
    "select {x} from t" if False else "select * from t where j = '{\"k\": [1, 2]}'",
    "select [1, 2]" if False else "select * from t where a in (select b from u where c = (select max(d) from v))",
    "select CASE WHEN a = 'x''y' THEN 'p' ELSE 'q' END from t",
    "select * from t limit 5 offset 2",
    "select ?, ? from t where a = ?",
    "select - 1, -1, - -1 from t",
    # comments glued to their neighbours (no blank on either side)
    "select a/*id*/ b from t", "select a/**/b, c--x\n from t", "select 1/*x*/+/*y*/2 from t/*z*/where a=1", "select 'x'/*c*/'y', `q`/*c*/.a from t",
    "select a,/*c*/b from t--end", "select/*c*/a from(select 1)as s/*c*/",
    # parentheses at both ends that do not pair up with each other; fully wrapped queries
    "(select a from t) union all (select b from u)",
    "(select 1)", "((select 1))", "(select a from t where b in (1, 2)) union (select 3)",
    "(select a from t) order by (a)", "select (a), (b) from t where (c)",
    # string literals that span lines, with the same margin as the statement's own continuation lines
    "select a,\n    'first line\n    second line' as s\n    from t",
    "\n    select *\n    from t\n    where note = 'x\n    y\n      z'\n",
    "select *\n\tfrom t\n\twhere s = 'tab\n\tinside'",
    "  select 'a\n  b',\n  \"c\n  d\"\n  from t",
    "select *\r\n  from t\r\n  where a = 'x\r\n  y'",
]


def floors(tier):
    return {'stored_checked': 800, 'len:embeddings': 16, 'reparsed_equal': 300}


def ceilings(tier):
    # fractions of all evaluations; the unchanged tree stays below about two thirds of each
    return {'inner_not_parseable_alone': 0.2}


TOKEN_RE = re.compile(r"""
      (?P<lc>--[^\n]*)
    | (?P<bc>/\*[\s\S]*?\*/)
    | (?P<sq>'(?:\\.|''|[^'\\])*')
    | (?P<dq>"(?:\\.|[^"\\])*")
    | (?P<bq>`[^`]*`)
    | (?P<word>[A-Za-z0-9_$@\u0080-￿]+)
    | (?P<ws>\s+)
    | (?P<sym>.)
""", re.X)


def tokens(text):
    """Independent tokenizer: (kind, text) list with whitespace and comments dropped, everything else verbatim."""
    out = []
    for m in TOKEN_RE.finditer(text):
        k = m.lastgroup
        if k in ('lc', 'bc', 'ws'):
            continue
        out.append((k, m.group()))
    return out


def classify(exp, got):
    """First difference between two token lists -> (token kind, alteration)."""
    i = 0
    while i < min(len(exp), len(got)) and exp[i] == got[i]:
        i += 1
    if i >= len(exp):
        return ('-', 'extra-tokens')
    if i >= len(got):
        return (exp[i][0], 'truncated')
    ek, et = exp[i]
    gk, gt = got[i]
    if ek in ('sq', 'dq'):
        if gt == et[1:-1] or (gk == 'sym' and gt in ("'", '"')):
            alt = 'quotes-lost'
        elif gk == ek and len(gt) < len(et):
            alt = 'escape-or-char-removed'
        elif gk == ek:
            alt = 'content-changed'
        else:
            alt = 'changed'
        return (ek, alt)
    if ek == 'word' and et.startswith('@'):
        return ('variable', 'sigil-lost' if gt == et.lstrip('@') else 'changed')
    if ek == 'bq':
        return ('bq', 'content-changed' if gk == 'bq' else 'changed')
    if ek == 'word':
        return ('word', 'spelling-changed' if gk == 'word' else 'changed')
    return (ek, 'changed')


def inner_texts(ctx):
    out = [('hostile', x) for x in HOSTILE_INNER]
    r = ctx.sub_rng('inner')
    n = 500 if ctx.tier == 'quick' else 20000
    for i in range(n):
        k = r.random()
        if k < 0.5:
            s = sqlgen.select(r, 2)
        elif k < 0.7:
            s = sqlgen.select(r, 1, True) + ' ' + r.choice(sqlgen.UOPS) + ' ' + sqlgen.select(r, 1, True)
        elif k < 0.85:
            # re-layout a generated select over several lines with comments / blank lines
            words = sqlgen.select(r, 1).split(' ')
            s = ''
            for w in words:
                s += w
                q = r.random()
                if w.upper() in ('GROUP', 'ORDER', 'PARTITION', 'NULLS', 'PRIMARY', 'KNOWLEDGE'):
                    s += ' '        # first word of a single-space multi-word token
                elif w.upper() in ('IS', 'NOT'):
                    s += ' ' if q < 0.8 else '\n'     # IS NOT / NOT IN / NOT LIKE allow white space, but a comment would split the token
                else:
                    s += ' ' if q < 0.7 else '\n' if q < 0.8 else '\n\n' if q < 0.85 else '  ' if q < 0.9 else ' -- c\n' if q < 0.95 else ' /* c */ '
            # a split inside a quoted literal would change the literal itself: keep only texts whose literals are intact
        else:
            s = r.choice(HOSTILE_INNER) + (' ' + r.choice(['', 'limit 3', "-- end"]))
        out.append(('gen', s))
    return out


def balanced(x):
    toks = tokens(x)
    d = 0
    for k, t in toks:
        if k == 'sym' and t == '(':
            d += 1
        elif k == 'sym' and t == ')':
            d -= 1
            if d < 0:
                return False
    return d == 0


def run_shard(ctx):
    from mindsdb_sql import parse_sql
    acc = ctx.acc
    inner = inner_texts(ctx)
    names = list(EMBED)
    idx = -1
    for ii, (cls, x) in enumerate(inner):
        if not balanced(x):
            continue
        embs = names if cls == 'hostile' else [names[(ii + j * 5) % len(names)] for j in range(3)]
        for e in embs:
            idx += 1
            if not ctx.mine(idx):
                continue
            if ctx.out_of_time():
                return
            tmpl, get = EMBED[e]
            x2 = inner[(ii * 7 + 3) % len(inner)][1]
            if not balanced(x2):
                x2 = 'select 1'
            # a trailing line comment would swallow the closing parenthesis of the embedding: end that line first
            cl = lambda q: q + '\n' if '--' in q.split('\n')[-1] else q
            sql = tmpl.replace('{x2}', cl(x2)).replace('{x}', cl(x))
            acc.ev()
            try:
                t = parse_sql(sql, 'mindsdb')
                stored = get(t)
            except Exception as ex:
                acc.count('embedding_rejected')
                acc.add('rejected_inner_kinds', type(ex).__name__)
                continue
            srcs = [x, x2][:len(stored)]
            acc.add('embeddings', e)
            for which, (src, st) in enumerate(zip(srcs, stored)):
                acc.count('stored_checked')
                nontriv = any(c in src for c in "'\"@(\n") or '--' in src or '/*' in src
                if nontriv:
                    acc.key(e, src)
                if not isinstance(st, str):
                    acc.fail({'embedding': e, 'kind': '-', 'alteration': 'not-a-string:' + type(st).__name__}, {'sql': sql})
                    continue
                te, tg = tokens(src), tokens(st)
                if te != tg:
                    kind, alt = classify(te, tg)
                    acc.fail({'embedding': '*', 'kind': kind, 'alteration': alt},
                             {'sql': sql, 'inner': src, 'stored': st, 'embedding': e, 'field': which})
                    continue
                # structural check: parsing the stored text gives the same tree as parsing the inner text
                try:
                    a = parse_sql(src, 'mindsdb')
                except Exception:
                    acc.count('inner_not_parseable_alone')
                    a = None
                if a is not None:
                    try:
                        b = parse_sql(st, 'mindsdb')
                        same = monitors.struct(a) == monitors.struct(b)
                    except Exception as ex:
                        same = False
                    if not same:
                        acc.fail({'embedding': '*', 'kind': 'tree', 'alteration': 'stored-text-parses-differently'},
                                 {'sql': sql, 'inner': src, 'stored': st, 'embedding': e})
                        continue
                    acc.count('reparsed_equal')
                if len(acc.samples) < 5 and nontriv and idx % 23 == 0:
                    acc.sample({'embedding': e, 'inner': src[:160], 'stored': st[:160], 'verbatim_tokens': len(te)})


def replay(path):
    import json
    from mindsdb_sql import parse_sql
    w = json.load(open(path))
    for wit in w['witnesses']:
        print(repr(wit.get('sql'))[:300])
        print('  inner :', repr(wit.get('inner'))[:200])
        print('  stored:', repr(wit.get('stored'))[:200])
    return 1
