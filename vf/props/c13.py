"""C13 - the AST walker visits every table, expression and subquery once, in order.

Monitor: boundary of planner.utils.query_traversal with a recording visitor (identity-based); reflective slot maps
of the tree before and after a run in which the visitor returns a replacement at visit k.
Oracle: an independent specification of which fields of each node class hold expressions / tables / queries, in
textual order (the 'required' set); every required node is visited exactly once, leaves in textual order, is_table
exactly on table-position nodes, is_target exactly on select-list items, and a replacement changes exactly the slot
that held the visited node."""
import copy

from vf import core, monitors
from vf.props._parsework import base_statements, gram_statements

ID = 'C13'
LEVEL = 'exploration'
TECHNIQUE = 'runtime monitor on query_traversal: recording visitor + reflective slot maps, judged against an independent field-role specification of the AST'
RULE = ('trees = parser-produced Select/Union/Intersect/Except/Insert/Update/Delete/CreateTable statements from the corpus and generated '
        'templates + dedicated statements with every node kind in every position (CASE operand, function FROM-argument, window partitions, '
        'CTE bodies, tuples, casts, DML targets, VALUES rows); one replacement run per visit index; non-trivial = tree with >= 5 required '
        'nodes; distinct by multiset of (node class, field)')
RULE += "; list replacements of select-list items (first / middle / last item, 2-3 nodes)" + "; also: lists of 65-300 elements, abandoned traversals (raising visitor), replacement nodes of several kinds (NULL, 0, '', FALSE, empty tuple)"
ASSUMPTIONS = ['required set = nodes in expression / table / query positions (select-list items, FROM and JOIN operands, join conditions, WHERE, '
               'GROUP BY, HAVING, ORDER BY fields, function arguments incl. FROM-argument, CASE operand and branches, window partitions and '
               'orderings, cast arguments, tuple items, INSERT values, UPDATE SET values, CTE bodies, set-operation sides, subqueries, DML targets)',
               'not required: aliases, CTE names/column lists, NativeQuery.integration, Update.from_select_alias, Star inside Identifier.parts, LIMIT/OFFSET constants',
               'order is judged on leaf nodes; wrappers the walker also passes (Join, OrderBy, lists) are tolerated at most once']
BUDGET = {'quick': (8, 240), 'thorough': (16, 1800)}

# class -> ordered list of (field, role); role: e = expression, t = table position, q = query, le/lt = list of, rules = CASE rules,
# rows = list of lists, dict = dict values, target = select list, ob = list of OrderBy, cte = list of CTE objects
SPEC = {
    'Select': [('cte', 'cte'), ('targets', 'target'), ('from_table', 't'), ('where', 'e'), ('group_by', 'le'), ('having', 'e'), ('order_by', 'ob')],
    'Union': [('left', 'q'), ('right', 'q')], 'Intersect': [('left', 'q'), ('right', 'q')], 'Except': [('left', 'q'), ('right', 'q')],
    'Join': [('left', 't'), ('right', 't'), ('condition', 'e')],
    'BinaryOperation': [('args', 'le')], 'UnaryOperation': [('args', 'le')], 'BetweenOperation': [('args', 'le')],
    'Function': [('args', 'le'), ('from_arg', 'e')], 'Exists': [('args', 'le')], 'NotExists': [('args', 'le')],
    'WindowFunction': [('function', 'e'), ('partition', 'le'), ('order_by', 'ob')],
    'TypeCast': [('arg', 'e')], 'Tuple': [('items', 'le')],
    'Case': [('arg', 'e'), ('rules', 'rules'), ('default', 'e')],
    'Insert': [('table', 't'), ('values', 'rows'), ('from_select', 'q')],
    'Update': [('table', 't'), ('update_columns', 'dict'), ('from_select', 'q'), ('where', 'e')],
    'Delete': [('table', 't'), ('where', 'e')],
    'CreateTable': [('name', 't'), ('from_select', 'q')],
    'OrderBy': [('field', 'e')],
}
WRAPPERS = ('Join', 'OrderBy', 'CommonTableExpression', 'TableColumn')
EXTRA = [
    # lists long enough to cross any "small list" threshold in the walker
    "SELECT a FROM t WHERE b IN (" + ", ".join(str(i) for i in range(70)) + ") AND c = 1",
    "SELECT a FROM t WHERE b IN (" + ", ".join(f"'s{i}'" for i in range(300)) + ")",
    "SELECT a FROM t WHERE b NOT IN (" + ", ".join(str(i) for i in range(65)) + ", x, 66) OR f(" + ", ".join(f"a{i}" for i in range(80)) + ") > 0",
    "INSERT INTO t (a) VALUES " + ", ".join(f"({i})" for i in range(90)),
    "SELECT " + ", ".join(f"c{i}" for i in range(130)) + " FROM t ORDER BY " + ", ".join(f"c{i}" for i in range(70)),
    "SELECT CASE a WHEN b THEN c WHEN d THEN e ELSE f END, CASE WHEN g = 1 THEN h END FROM t",
    "SELECT extract(m FROM d), substring(s FROM 1 FOR 2), trim(x FROM y) FROM t",
    "SELECT sum(a) OVER (PARTITION BY b, c ORDER BY d DESC, e) AS w FROM t",
    "SELECT (a, b) = (1, 2), CAST(c AS int), d::text, -e, NOT f, g BETWEEN h AND i FROM t",
    "WITH c1 AS (SELECT a FROM t1 WHERE b = 1), c2 AS (SELECT c FROM t2) SELECT c1.a, c2.c FROM c1 JOIN c2 ON c1.a = c2.c",
    "SELECT a FROM t1 UNION SELECT b FROM t2 INTERSECT SELECT c FROM t3 EXCEPT SELECT d FROM t4",
    "SELECT a FROM t1 JOIN t2 ON t1.x = t2.x LEFT JOIN t3 ON t2.y = t3.y WHERE t1.z IN (SELECT w FROM t4) GROUP BY a, b HAVING count(c) > 1 ORDER BY d, e DESC",
    "SELECT * FROM (SELECT a FROM t1 WHERE b > 1) AS s WHERE s.a < (SELECT max(c) FROM t2)",
    "INSERT INTO t1 (a, b) VALUES (1, x), (y + 1, f(z))",
    "INSERT INTO t1 (a) SELECT b FROM t2 WHERE c = 1",
    "UPDATE t1 SET a = b + 1, c = f(d), e = 2 WHERE g = h",
    "UPDATE t1 SET a = s.b FROM (SELECT b, k FROM t2 WHERE c = 1) AS s WHERE t1.k = s.k",
    "DELETE FROM t1 WHERE a IN (SELECT b FROM t2) AND c = 1",
    "CREATE TABLE int1.t9 (SELECT a, b FROM t1 JOIN t2 ON t1.k = t2.k)",
    "SELECT a FROM t WHERE EXISTS (SELECT 1 FROM u WHERE u.k = t.k) AND NOT EXISTS (SELECT 2 FROM v)",
    "SELECT ?, a FROM t WHERE b = ? AND c IN (?, ?) ORDER BY d LIMIT 3",
    "SELECT a FROM int1 (select raw from x) AS n JOIN t ON n.k = t.k",
    "SELECT coalesce((SELECT m FROM u LIMIT 1), a) FROM t",
    # leaf-like nodes that keep plain Python values in their fields (nothing below them is a node)
    "SELECT a + INTERVAL '1 day', b - interval 3 hour FROM t WHERE c > now() - INTERVAL '2' week ORDER BY d + INTERVAL '1' month",
    "SELECT @v, @@session.x, LATEST, t.*, * FROM t WHERE a = @w AND b > LATEST",
    "SELECT a FROM t WHERE b = TRUE AND c IS NULL AND d = 1.5 AND e = 'txt' AND f = -2 LIMIT 2 OFFSET 1",
    "SELECT cast(a AS varchar(10)), b::decimal(10, 2), c FROM t FOR UPDATE",
    "SELECT row_number() OVER (ORDER BY a ROWS BETWEEN 1 PRECEDING AND CURRENT ROW) FROM t",
]


def floors(tier):
    return {'traversals': 1500, 'replacement_runs': 1500, 'len:class_fields_seen': 30, 'len:statement_classes': 6}


def astnode(x):
    from mindsdb_sql.parser.ast.base import ASTNode
    return isinstance(x, ASTNode)


def required(tree):
    """Independent walk: ordered list of dicts {node, parent_cls, field, is_table, is_target, trail, leaf} for every required node."""
    out = []

    def visit(n, parent_cls, field, is_table=False, is_target=False, trail=()):
        if n is None:
            return
        cls = type(n).__name__
        entry = {'node': n, 'parent': parent_cls, 'field': field, 'is_table': is_table, 'is_target': is_target, 'trail': trail, 'cls': cls}
        out.append(entry)
        spec = SPEC.get(cls)
        nchild = 0
        if spec:
            for f, role in spec:
                v = getattr(n, f, None)
                if v is None:
                    continue
                tr = trail + ((cls, f),)
                if role == 'e' or role == 'q':
                    if astnode(v):
                        visit(v, cls, f, trail=tr)
                        nchild += 1
                elif role == 't':
                    if astnode(v):
                        visit(v, cls, f, is_table=True, trail=tr)
                        nchild += 1
                elif role == 'le':
                    for x in v:
                        if astnode(x):
                            visit(x, cls, f, trail=tr)
                            nchild += 1
                elif role == 'target':
                    for x in v:
                        if astnode(x):
                            visit(x, cls, f, is_target=True, trail=tr)
                            nchild += 1
                elif role == 'ob':
                    for x in v:
                        if astnode(x):
                            visit(x, cls, f, trail=tr)
                            nchild += 1
                elif role == 'cte':
                    for x in v:
                        q = getattr(x, 'query', None)
                        if astnode(q):
                            visit(q, cls, 'cte.query', trail=tr)
                            nchild += 1
                elif role == 'rules':
                    for pair in v:
                        for x in pair:
                            if astnode(x):
                                visit(x, cls, f, trail=tr)
                                nchild += 1
                elif role == 'rows':
                    for row in v:
                        for x in row:
                            if astnode(x):
                                visit(x, cls, f, trail=tr)
                                nchild += 1
                elif role == 'dict':
                    for x in v.values():
                        if astnode(x):
                            visit(x, cls, f, trail=tr)
                            nchild += 1
        entry['leaf'] = nchild == 0
    visit(tree, None, None)
    return out


def record_traversal(tree):
    from mindsdb_sql.planner.utils import query_traversal
    visits = []

    def cb(node, is_table=False, is_target=False, parent_query=None, **kw):
        visits.append((node, bool(is_table), bool(is_target)))
        return None
    query_traversal(tree, cb)
    return visits


def node_slots(tree):
    """path -> id(node) for every ASTNode reachable (containers are transparent)."""
    out = {}
    for path, o in monitors.walk(tree):
        if astnode(o):
            out[path] = id(o)
    return out


def lca_fields(a, b):
    """For two entries: (class of the lowest common ancestor, field of a, field of b)."""
    ta, tb = a['trail'], b['trail']
    i = 0
    while i < min(len(ta), len(tb)) and ta[i] == tb[i]:
        i += 1
    if i < len(ta) and i < len(tb) and ta[i][0] == tb[i][0]:
        return ta[i][0], ta[i][1], tb[i][1]
    cls = ta[i - 1][0] if i > 0 else (ta[0][0] if ta else '?')
    return cls, ta[i][1] if i < len(ta) else '-', tb[i][1] if i < len(tb) else '-'


def judge(tree):
    """List of (sig, detail)."""
    out = []
    req = required(tree)
    visits = record_traversal(tree)
    vcount = {}
    for n, it, ig in visits:
        if astnode(n):
            vcount[id(n)] = vcount.get(id(n), 0) + 1
    vflags = {id(n): (it, ig) for n, it, ig in visits if astnode(n)}
    by_id = {id(e['node']): e for e in req}
    for e in req:
        k = vcount.get(id(e['node']), 0)
        if k == 0:
            out.append(({'defect': 'never-visited', 'parent': e['parent'], 'field': e['field']}, {'node': repr(e['node'])[:120]}))
        elif k > 1:
            out.append(({'defect': 'visited-twice', 'parent': e['parent'], 'field': e['field']}, {'node': repr(e['node'])[:120], 'times': k}))
        else:
            it, ig = vflags[id(e['node'])]
            if it != e['is_table']:
                out.append(({'defect': 'is_table-wrong', 'parent': e['parent'], 'field': e['field'], 'flag': it}, {'node': repr(e['node'])[:120]}))
            if ig != e['is_target']:
                out.append(({'defect': 'is_target-wrong', 'parent': e['parent'], 'field': e['field'], 'flag': ig}, {'node': repr(e['node'])[:120]}))
    # the visitor is for nodes: a bare string / number / list / None handed to it is a call for something that is no node
    for n, it, ig in visits:
        if not astnode(n) and type(n).__name__ not in WRAPPERS:
            out.append(({'defect': 'visitor-called-with-non-node', 'type': type(n).__name__}, {'value': repr(n)[:120]}))
    # anything visited that is an ASTNode but neither required nor a tolerated wrapper?
    for n, it, ig in visits:
        if astnode(n) and id(n) not in by_id and type(n).__name__ not in WRAPPERS:
            out.append(({'defect': 'visited-unexpected-node', 'cls': type(n).__name__}, {'node': repr(n)[:120]}))
    # order of leaves
    exp = [e for e in req if e['leaf'] and vcount.get(id(e['node']), 0) == 1]
    pos = {}
    for i, (n, it, ig) in enumerate(visits):
        pos.setdefault(id(n), i)
    act = sorted(exp, key=lambda e: pos[id(e['node'])])
    seen_pairs = set()
    for a, b in zip(exp, exp[1:]):
        # consecutive leaves in textual order that the walker visits the other way round
        if pos[id(a['node'])] > pos[id(b['node'])]:
            cls, fa, fb = lca_fields(a, b)
            key = (cls, fa, fb)
            if key not in seen_pairs:
                seen_pairs.add(key)
                out.append(({'defect': 'order', 'parent': cls, 'textual_first': fa, 'visited_first': fb},
                            {'textually_first': repr(a['node'])[:80], 'visited_first': repr(b['node'])[:80]}))
    # before its own children: a node must be visited before its descendants
    for e in req:
        if e['trail'] and id(e['node']) in pos:
            pass
    return out, req, visits


def replacement_runs(text, dialect, acc, max_runs):
    """One run per visit index: the visitor returns a replacement at visit k; exactly that slot must change."""
    from mindsdb_sql import parse_sql
    from mindsdb_sql.planner.utils import query_traversal
    from mindsdb_sql.parser.ast import Identifier, Constant, NullConstant, Tuple
    out = []
    base = parse_sql(text, dialect)
    nvis = len(record_traversal(base))
    ks = list(range(1, nvis))
    if len(ks) > max_runs:
        step = len(ks) / max_runs
        ks = [ks[int(i * step)] for i in range(max_runs)]
    for k in ks:
        tree = parse_sql(text, dialect)
        before = node_slots(tree)
        state = {'i': -1, 'old': None, 'new': None}

        def cb(node, **kw):
            state['i'] += 1
            if state['i'] == k and astnode(node) and state['old'] is None:
                state['old'] = node
                # replacements of several kinds, among them the nodes a truthiness test could take for "nothing" (NULL, 0, '', FALSE)
                state['new'] = [Identifier(parts=['REPLACED']), NullConstant(), Constant(0), Constant(''), Constant(False),
                                Constant(None), Tuple([]), Identifier(parts=['REPLACED', 'x'])][k % 8]
                return state['new']
            return None
        try:
            res = query_traversal(tree, cb)
        except Exception as e:
            out.append(({'defect': 'replacement-raises', 'etype': type(e).__name__}, {'k': k, 'error': str(e)[:120]}))
            continue
        if state['old'] is None:
            continue            # visit k was a list wrapper: nothing replaced
        acc.count('replacement_runs')
        after = node_slots(tree)
        old_id, new_id = id(state['old']), id(state['new'])
        old_paths = [p for p, i in before.items() if i == old_id]
        under_old = {id(o) for _, o in monitors.walk(state['old']) if astnode(o)}
        changed = []
        for p, i in before.items():
            if i in under_old:
                continue        # the replaced subtree legitimately disappears
            if after.get(p) != i:
                changed.append(p)
        new_paths = [p for p, i in after.items() if i == new_id]
        cls_old = type(state['old']).__name__
        if new_paths and old_id in after.values():
            # the visited node was replaced in one slot and is still held by another: whoever reads that one (a printer, say) sees the old node
            still = [p for p, i in after.items() if i == old_id]
            import re as _re
            out.append(({'defect': 'replaced-node-still-held-elsewhere', 'cls': cls_old, 'where': _re.sub(r'\[\d+\]', '[]', still[0])[-60:]}, {'k': k, 'paths': still[:3]}))
        if not new_paths:
            out.append(({'defect': 'replacement-ignored', 'cls': cls_old}, {'k': k, 'old_paths': old_paths[:3]}))
        elif sorted(new_paths) != sorted(old_paths):
            out.append(({'defect': 'replacement-lands-elsewhere', 'cls': cls_old}, {'k': k, 'old_paths': old_paths[:3], 'new_paths': new_paths[:3]}))
        if changed:
            # which parent class / field lost something
            p0 = sorted(changed)[0]
            import re
            out.append(({'defect': 'replacement-changes-other-slots', 'where': re.sub(r'\[\d+\]|\[\'[^\']*\'\]', '[]', p0)[:80]},
                        {'k': k, 'replaced': repr(state['old'])[:80], 'also_changed': sorted(changed)[:4]}))
    return out


def list_replacement_runs(text, dialect, acc):
    """For a select-list item the walker also accepts a LIST of nodes (star expansion): the item is replaced by the listed nodes,
    in order, in that position; the listed nodes are not statement nodes - the visitor is never called for them - and every other
    node is visited exactly as in a run without replacement."""
    from mindsdb_sql import parse_sql
    from mindsdb_sql.planner.utils import query_traversal
    from mindsdb_sql.parser.ast import Identifier, Select
    out = []
    base = parse_sql(text, dialect)
    if not isinstance(base, Select) or not base.targets:
        return out
    for which in sorted({0, len(base.targets) // 2, len(base.targets) - 1}):
        for n_new in (2, 3, 0):
            tree = parse_sql(text, dialect)
            tgt = tree.targets[which]
            others_before = [id(x) for j, x in enumerate(tree.targets) if j != which]
            new = [Identifier(parts=[f'NEW{j}']) for j in range(n_new)]
            new_ids = {id(x) for x in new}
            under_old = {id(o) for _, o in monitors.walk(tgt) if astnode(o)}
            calls = []

            def cb(node, **kw):
                calls.append(id(node))
                if node is tgt:
                    return list(new)
                return None
            baseline = [id(n) for n, _, _ in record_traversal(tree) if astnode(n)]
            try:
                query_traversal(tree, cb)
            except Exception as e:
                out.append(({'defect': 'list-replacement-raises', 'etype': type(e).__name__}, {'target': which, 'error': str(e)[:120]}))
                continue
            acc.count('list_replacement_runs')
            if n_new == 0:
                continue        # an empty list: what it means is not stated anywhere; only "does not raise" is judged
            got = [id(x) for x in tree.targets]
            want = others_before[:which] + [id(x) for x in new] + others_before[which:]
            if got != want:
                out.append(({'defect': 'list-replacement-not-spliced-in-place', 'n': n_new}, {'target': which, 'targets_after': [repr(x)[:40] for x in tree.targets][:8]}))
            if any(c in new_ids for c in calls):
                out.append(({'defect': 'visitor-called-for-replacement-nodes', 'n': n_new}, {'target': which}))
            expect = [i for i in baseline if i not in under_old or i == id(tgt)]
            seen = [c for c in calls if c in set(baseline)]
            if seen != expect:
                out.append(({'defect': 'list-replacement-disturbs-other-visits', 'n': n_new}, {'target': which, 'visits': len(seen), 'expected': len(expect)}))
    return out


def run_shard(ctx):
    from mindsdb_sql import parse_sql
    acc = ctx.acc
    base = [('extra', s) for s in EXTRA] + base_statements(ctx.seed, 6000 if ctx.tier == 'quick' else 100000)
    base += gram_statements(ctx.seed, 3000 if ctx.tier == 'quick' else 15000)
    classes = ('Select', 'Union', 'Intersect', 'Except', 'Insert', 'Update', 'Delete', 'CreateTable')
    for i, (label, text) in enumerate(base):
        if not ctx.mine(i):
            continue
        if ctx.out_of_time():
            acc.notes.append(f'shard {ctx.shard}: time budget hit at {i}')
            break
        try:
            tree = parse_sql(text, 'mindsdb')
        except Exception:
            continue
        if type(tree).__name__ not in classes:
            continue
        acc.ev()
        acc.count('traversals')
        acc.add('statement_classes', type(tree).__name__)
        try:
            fails, req, visits = judge(tree)
        except Exception as e:
            c = monitors.classify_exception(e)
            if c['file'].startswith('mindsdb_sql'):
                acc.fail({'defect': 'traversal-raises', 'etype': c['etype'], 'func': c['func']}, {'text': text[:300], 'error': str(e)[:200]})
                continue
            raise
        # a traversal abandoned because the visitor raised (what a planner does on a statement it rejects) must leave
        # nothing behind: the visitor's own exception comes out, and later traversals in this process are judged as usual
        if i % 2 == 0:
            from mindsdb_sql.planner.utils import query_traversal
            stop_at = max(1, len(visits) - 1 - (i % 3))
            seen_n = [0]

            class _Abandon(Exception):
                pass

            def _raising(node, **kw):
                seen_n[0] += 1
                if seen_n[0] >= stop_at:
                    raise _Abandon()
            acc.count('abandoned_traversals')
            try:
                query_traversal(copy.deepcopy(tree), _raising)
                if len(visits) >= stop_at:
                    acc.fail({'defect': 'visitor-exception-swallowed'}, {'text': text[:300], 'visits': len(visits), 'stop_at': stop_at})
            except _Abandon:
                pass
            except Exception as e:
                acc.fail({'defect': 'visitor-exception-replaced', 'etype': type(e).__name__}, {'text': text[:300], 'error': str(e)[:200]})
        for e in req:
            if e['parent']:
                acc.add('class_fields_seen', f"{e['parent']}.{e['field']}")
        if len(req) >= 5:
            acc.key(tuple(sorted((e['parent'] or '-', e['field'] or '-') for e in req)))
        for sig, det in fails:
            det.update({'text': text[:300]})
            acc.fail(sig, det)
        if label == 'extra' or i % 6 == 3:
            for sig, det in list_replacement_runs(text, 'mindsdb', acc):
                det.update({'text': text[:300]})
                acc.fail(sig, det)
        if label == 'extra' or i % 6 == 0:
            for sig, det in replacement_runs(text, 'mindsdb', acc, 12 if ctx.tier == 'quick' else 40):
                det.update({'text': text[:300]})
                acc.fail(sig, det)
        if not fails and len(acc.samples) < 5 and len(req) > 8 and i % 19 == 0:
            acc.sample({'text': text[:200], 'required_nodes': len(req), 'visits': len(visits), 'all_visited_once_in_order': True})


def replay(path):
    import json
    from mindsdb_sql import parse_sql
    w = json.load(open(path))
    bad = 0
    for wit in w['witnesses']:
        t = parse_sql(wit['text'], 'mindsdb')
        f, req, v = judge(t)
        print(wit['text'][:200], '->', [s for s, d in f])
        bad += bool(f)
    return 1 if bad else 0
