"""C20 - calls are isolated: same input, same result, whatever ran before or alongside.

Monitors: API-boundary recorder (call / return events with thread ids = the history), yield injector
(sys.monitoring LINE events inside the tree under test hand the GIL over with a seeded probability and count the
thread switches actually observed), snapshots of shared class-level state at quiescent points.
Oracle: the canonical result of every call (tree struct + text, plan struct, rendered text, or exception class +
message) must equal the GOLDEN result of the same input computed in a fresh process with PYTHONHASHSEED=0 and fresh
argument objects - (a) when computed concurrently on 8 threads with SHARED catalog / renderer objects, (b) after
shuffled histories of other calls (including failing ones) in one process, (c) in fresh processes with other hash
seeds, (d) when the catalog objects of earlier calls are re-used for later calls."""
import copy
import json
import os
import random
import subprocess
import sys
import threading
import time

from vf import core, monitors
from vf.gen import fedgen, sqlgen

ID = 'C20'
LEVEL = 'exploration'
TECHNIQUE = 'runtime monitoring under stress: golden results from a fresh process vs results under 8-thread interleavings with sys.monitoring yield injection, shuffled call histories, PYTHONHASHSEED sweep and catalog re-use'
RULE = ('corpus = ~170 unique inputs (valid and invalid statements x parse_sql in 3 dialects, plan_query over federated / versioned-model / '
        'time-series queries, SqlalchemyRender in 4 dialects); each judged under >= 2 of the axes {threads, history, hashseed, catalog re-use}; '
        'non-trivial = input judged under >= 2 schedules / histories / seeds; distinct by (input, axis)')
RULE += "; also: syntax errors of every shape (mutations), joins on several key pairs, nested selects shared between statements, renderers built from the caller's dialect object (also the classes of several drivers sharing one dialect name), the prepare API; golden results from a process that has only imported the library (fork per input); dialect class attributes in the monitored class state"
RULE += '; star / star-alias statements and names spelled like keywords; cold-start rounds (a fresh process whose first library calls are made by 8 threads at once)'
ASSUMPTIONS = ['golden = result in a fresh process, PYTHONHASHSEED=0, fresh argument objects, fixed order (a shuffled-order run must reproduce it)',
               'interleavings are sampled (yield injection at line granularity), not enumerated',
               'a catalog mutation that does not change any later result (e.g. a default key added once) is not a violation']
BUDGET = {'quick': (8, 360), 'thorough': (16, 2700)}
NTHREADS = 8


def floors(tier):
    return {'thread_calls_judged': 600, 'thread_switches_in_library': 10000, 'len:switch_lines': 50, 'history_calls_judged': 800,
            'hashseed_processes': 3, 'catalog_reuse_calls': 150, 'len:apis': 3, 'cold_start_processes': 8, 'cold_thread_calls_judged': 300}


# ---------------------------------------------------------------------------------------------------------------
# corpus and canonical results
# ---------------------------------------------------------------------------------------------------------------

MODELS = [
    {'name': 'm1', 'integration_name': 'mindsdb', 'timeseries': False, 'to_predict': ['y']},
    {'name': 'm2', 'integration_name': 'proj', 'timeseries': False, 'to_predict': 'target'},
    {'name': 'ts1', 'integration_name': 'mindsdb', 'timeseries': True, 'window': 3, 'order_by_column': 'ts', 'group_by_columns': ['g']},
]


def fresh_catalog():
    return dict(integrations=[{'name': n, 'type': 'data'} for n in ('int1', 'int2', 'int3')] + [{'name': 'proj', 'type': 'project'}],
                predictor_metadata=copy.deepcopy(MODELS), default_namespace='mindsdb')


def variant_catalog(variant):
    """Catalog spellings other than the usual one (no default namespace, several projects, names only, legacy dict)."""
    models = copy.deepcopy(MODELS)
    if variant == 'no-default-namespace':
        return dict(integrations=[{'name': n, 'type': 'data'} for n in ('int1', 'int2', 'int3')] + [{'name': p, 'type': 'project'} for p in ('proj', 'proj2', 'proj3', 'mindsdb')],
                    predictor_metadata=models)
    if variant == 'names-only':
        return dict(integrations=['int1', 'int2', 'int3'], predictor_metadata=models, predictor_namespace='mindsdb')
    if variant == 'legacy-dict':
        return dict(integrations=['int1', 'int2', 'int3'], predictor_metadata={m['name']: m for m in models}, default_namespace='int1')
    raise ValueError(variant)


def corpus(seed):
    """Deterministic list of (id, api, payload)."""
    r = core.rng_for(seed, 'C20', 'corpus')
    out = []
    # parse: valid + invalid, 3 dialects
    for i in range(50):
        k, s = sqlgen.mindsdb_statement(r)
        out.append((f'parse:{i}', 'parse', (s + f' -- u{i}' if False else s, 'mindsdb')))
    base = [x for x in sqlgen.corpus() if len(x) < 300]
    for i in range(20):
        s = base[r.randrange(len(base))]
        out.append((f'parse-c:{i}', 'parse', (s, r.choice(['mindsdb', 'mysql', 'sqlite']))))
    for i, s in enumerate(['select from', 'select a from t where', 'x y ; select 1', 'select # from t', "create skill s using a = 1", "select -'x'",
                           'select a,, b from t', 'insert into t values (', 'select * from t limit 1 limit 2', 'update t set', '', 'select ' + '(' * 30 + '1']):
        out.append((f'parse-bad:{i}', 'parse', (s, 'mindsdb' if i % 3 else 'mysql')))
    # syntax errors of every shape (token-level mutations of valid statements): the error report, suggestions included,
    # is part of the result and must not depend on the reports made before it
    for i in range(90):
        s0 = base[r.randrange(len(base))] if i % 3 else sqlgen.mindsdb_statement(r)[1]
        try:
            toks = monitors.lex_all(s0, 'mindsdb')
        except Exception:
            toks = []
        ml, t = sqlgen.mutate(s0, toks, r, sqlgen.keyword_vocab(monitors.lexer_classes()['mindsdb']))
        out.append((f'parse-mut:{i}', 'parse', (t, 'mindsdb' if i % 4 else 'mysql')))
    # stars with and without alias / column list, and plain stars around them
    for i, s_ in enumerate(['SELECT * FROM t', 'SELECT * AS x FROM t', 'SELECT t.*, * FROM t', 'SELECT * y FROM t', 'SELECT count(*) FROM t',
                            'SELECT * FROM (SELECT * FROM u) AS s (c1)', 'SELECT a, * FROM t WHERE b = 1', 'SELECT * FROM (SELECT * FROM u) AS s']):
        out.append((f'parse-star:{i}', 'parse', (s_, 'mindsdb')))
    # identifiers named like keywords of one dialect or the other (quoted in the input): how they are printed back
    for i, s_ in enumerate(['select `status`, `view` from `tables` where `read` = 1', 'select t.`level` from `session` t order by t.`index`',
                            'select `model`, `engine`, `job` from `databases`', 'select `select`, `from` from `where`', 'select `latest`, `horizon` from `predict`',
                            'select `a b`, `view` as `status` from `t-1`.`tables`']):
        for d in ('mysql', 'mindsdb', 'sqlite'):
            out.append((f'parse-kw:{i}:{d}', 'parse', (s_, d)))
    # plan: federated, model joins with versions (the shared-metadata stress), time series
    for i in range(25):
        text, _, _ = fedgen.fed_query(r, single=(i % 4 == 0))
        out.append((f'plan-fed:{i}', 'plan', text))
    # sub-queries inside ON clauses (placeholders for them must not be named after anything of the process, such as an object's address)
    for i in range(6):
        out.append((f'plan-on-sub:{i}', 'plan', fedgen.subquery_in_on(r)))
    vers = ['', '.3', '.7', '.12', '']
    for i in range(25):
        v = vers[i % len(vers)]
        m = ['mindsdb.m1', 'proj.m2'][i % 2]
        t = ['int1.t1', 'int2.t2'][(i // 2) % 2]
        out.append((f'plan-model:{i}', 'plan', f'SELECT t.id, m.y FROM {t} AS t JOIN {m}{v} AS m WHERE t.a > {i} AND m.p{i % 3} = {100 + i}'))
    for i in range(10):
        text, info = fedgen.ts_join(r)
        out.append((f'plan-ts:{i}', 'plan', text))
    out.append(('plan-bad:0', 'plan', 'SELECT * FROM nowhere.t AS t JOIN mindsdb.m1 AS m ORDER BY t.zz'))
    # select directly from a (versioned) model and versioned time-series joins: the paths that read the version back from the catalog
    for i in range(12):
        v = vers[i % len(vers)]
        out.append((f'plan-model-select:{i}', 'plan', f'SELECT y, p1 FROM mindsdb.m1{v} WHERE p1 = {i} AND p2 = {200 + i}'))
    for i in range(8):
        v = vers[(i + 1) % len(vers)]
        out.append((f'plan-model-ts:{i}', 'plan', f'SELECT m.ts, m.yhat FROM int1.series AS t JOIN mindsdb.ts1{v} AS m WHERE t.ts > {i} AND t.g = {i % 3}'))
    # joins of tables, models and further tables (some joined on a model column): the join planner's bookkeeping
    for i in range(70):
        text, info = fedgen.model_join(r)
        out.append((f'plan-model-join:{i}', 'plan', text))
    # nested selects that live on another integration than the outer query (planned as separate steps); several
    # statements share the text of the nested select
    for i in range(12):
        sub = ['SELECT s.id FROM int2.t2 AS s WHERE s.a > 1', 'SELECT max(s.a) FROM int2.t2 AS s', 'SELECT u.x FROM int3.t3 AS u'][i % 3]
        outer = [f'SELECT p.id FROM int1.t1 AS p WHERE p.a IN ({sub}) AND p.id > {i}',
                 f'SELECT p.c, p.id FROM int1.t1 AS p WHERE p.id = {i} OR p.a IN ({sub})',
                 f'SELECT q.y FROM int1.t3 AS q WHERE q.x IN ({sub}) AND q.x NOT IN ({sub})',
                 f'DELETE FROM int1.t1 WHERE a IN ({sub})'][i % 4]
        out.append((f'plan-sub:{i}', 'plan', outer))
    # cross-integration joins on several key pairs, several filters, several IN lists: anything collected into a set on the way
    for i, s_ in enumerate([
            'SELECT a.id FROM int1.t1 AS a JOIN int2.t2 AS b ON a.id = b.id AND a.a = b.a',
            'SELECT a.id, b.d FROM int1.t1 AS a JOIN int2.t2 AS b ON a.id = b.id AND a.a = b.a AND a.c = b.d WHERE a.b > 1 AND b.a < 9 AND a.id IN (1, 2, 3)',
            'SELECT * FROM int1.t1 AS a LEFT JOIN int2.t2 AS b ON b.a = a.a AND b.id = a.id JOIN int3.t3 AS c ON c.id = a.id AND c.x = b.a',
            'SELECT a.id FROM int1.t1 AS a JOIN int2.t2 AS b ON a.id = b.id AND a.a = b.a JOIN mindsdb.m1 AS m WHERE m.p1 = 1 AND m.p2 = 2 AND m.p3 = 3 AND a.b = 4',
            'SELECT t.id, m.y FROM int1.t1 AS t JOIN mindsdb.m1 AS m ON m.x1 = t.a AND m.x2 = t.b AND m.x3 = t.c WHERE t.id > 0 USING k1 = 1, k2 = 2, k3 = 3, k4 = 4',
            'SELECT a.id FROM int1.t1 AS a JOIN int2.t2 AS b ON a.id = b.id AND a.a = b.a AND a.b = b.id AND a.c = b.d AND a.id = b.a']):
        out.append((f'plan-join-keys:{i}', 'plan', s_))
    # render
    from vf.gen import selgen
    for i in range(30):
        g = selgen.Gen(r)
        text, _ = g.query() if i % 5 else (g.dml(), False)
        out.append((f'render:{i}', 'render', (text, ['mysql', 'postgresql', 'sqlite', 'mssql'][i % 4])))
    for i, s in enumerate(['select cast(a as foo) from t', 'select count(a, b) from t', 'create table t (a serial, b int)']):
        out.append((f'render-odd:{i}', 'render', (s, 'mysql')))
    # renderers built from the caller's dialect OBJECT (after, before and between renderers built from a name); casts, whose
    # spelling depends on what the dialect object believes about the server
    for i, (s, d) in enumerate([('select cast(a as float), cast(b as int), cast(c as char) from t', 'mysql-object'),
                                ('select cast(a as float) from t', 'mysql'), ('select cast(a as float), a::double from t', 'postgresql-object'),
                                ('select cast(a as float) from t limit 2 offset 1', 'mssql-object'), ('select cast(a as date), b from t', 'sqlite-object'),
                                ('insert into t (a, b) values (1, 2), (3, 4)', 'mssql-object'), ('select cast(a as float) from t', 'mssql')]):
        out.append((f'render-obj:{i}', 'render', (s, d)))
    # dialect CLASSES of different drivers that share one dialect name (their compilers differ, e.g. in how `%` is written), next to
    # renderers built from that name: what one of them writes must not depend on which of them rendered first in the process
    mod_stmt = 'select a % 2, b from t where c % 3 = 1'
    for i, d in enumerate(['postgresql.pg8000-object', 'postgres', 'postgresql.psycopg2-object', 'postgresql', 'mysql.pymysql-object', 'mysql',
                           'mysql.mysqlconnector-object', 'postgresql.pg8000-object', 'sqlite.pysqlite-object', 'sqlite']):
        out.append((f'render-driver:{i}', 'render', (mod_stmt if i % 2 == 0 or i < 4 else "select a % 2 from t where b like '50%'", d)))
    # casts to every type name, per dialect (a dialect compiler may warn about or drop a cast it cannot express)
    k = 0
    for ty in ('boolean', 'bool', 'float', 'int', 'integer', 'date', 'datetime', 'char', 'varchar', 'text', 'double', 'decimal', 'json', 'bigint', 'timestamp'):
        for d in ('mysql', 'postgresql', 'sqlite', 'mssql'):
            if (k + len(ty)) % 2 == 0 or ty in ('boolean', 'bool'):
                form = [f'select cast(a as {ty}) as c, b from t1 where c = 1', f'select t.a::{ty} from t1 as t where t.b in (1, 2) order by t.c limit 5'][k % 2]
                out.append((f'render-cast:{ty}:{d}', 'render', (form, d)))
            k += 1
    # joins in which optional aliases are left out (tables, nested selects, models)
    for i, s_ in enumerate(['select * from int1.t1 a join (select * from int2.t2 where y > 1) on 1 = 1',
                            'select a.x from (select * from int2.t2) join int1.t1 a join mindsdb.m1 m',
                            'select * from int1.t1 join int2.t2 on t1.id = t2.id', 'select t1.a, m1.y from int1.t1 join mindsdb.m1',
                            'select * from (select * from int1.t1) join (select * from int2.t2)',
                            'select x.id from (select id from int1.t1 where a in (select b from int2.t2)) as x join int2.t2 on x.id = t2.id',
                            'select * from int1.t1 join proj.m2 where t1.a > 1', 'select * from mindsdb.m1 join int1.t1']):
        out.append((f'plan-noalias:{i}', 'plan', s_))
    # statements the planner rejects or resolves through the catalog alone, under several catalog spellings (error messages that
    # list what the catalog knows are results too)
    k = 0
    for var in ('no-default-namespace', 'names-only', 'legacy-dict'):
        for s_ in ['SELECT * FROM t9', 'SELECT * FROM t9 AS a JOIN int1.t1 AS b ON a.id = b.id', 'SELECT * FROM nowhere.t1 AS a JOIN int2.t2 AS b ON a.id = b.id',
                   'SELECT * FROM int1.t1 AS t JOIN m1 AS m', 'SELECT * FROM int1.t1 AS t JOIN proj9.m1 AS m', 'SELECT a FROM t9 WHERE b IN (SELECT c FROM int2.t2)',
                   'INSERT INTO t9 (a) SELECT b FROM int1.t1', 'SELECT * FROM int1.t1 AS a JOIN t9 AS b ON a.id = b.id JOIN mindsdb.m1 AS m']:
            out.append((f'plan-cat:{var}:{k}', 'plan-cat', (s_, var)))
            k += 1
    # names spelled like reserved words of one target or another, rendered under every dialect name the renderer knows
    for i, d in enumerate(['mysql', 'postgresql', 'postgres', 'sqlite', 'mssql', 'oracle', 'Snowflake', 'oracle', 'mysql', 'Snowflake', 'postgresql']):
        s_ = ['select date, size, comment, level, number, uid, mode from t where user = 1 order by timestamp',
              'select t.date as size, t.level from t as comment where t.number > 1',
              'select key, value, type, year, month, rank, rows, role, name, text, zone from tab order by position'][i % 3]
        out.append((f'render-names:{i}', 'render', (s_, d)))
    # statements nested deeper than the interpreter's default recursion limit allows the printers / copiers to go: whatever they give
    # (an error, usually) is their result in every process state - process-wide settings are inputs nobody passed
    deep_and = ' AND '.join(f'c{i} = {i}' for i in range(1500))
    out.append(('deep:parse', 'parse', ('SELECT a FROM t WHERE ' + deep_and, 'mindsdb')))
    out.append(('deep:plan', 'plan', 'SELECT a FROM int1.t1 WHERE ' + deep_and))
    out.append(('deep:plan-join', 'plan', 'SELECT t.a FROM int1.t1 AS t JOIN int2.t2 AS u ON t.id = u.id WHERE ' + deep_and))
    out.append(('deep:render', 'render', ('SELECT a FROM t WHERE ' + deep_and, 'postgresql')))
    out.append(('deep:parse-nested', 'parse', ('SELECT ' + '(' * 400 + '1' + ')' * 400, 'mysql')))
    # trees that several threads print / render at once (ONE tree object per round): printing is a function of the tree
    wide = ', '.join(f'c{j} AS a{j}' for j in range(120))
    for i, s_ in enumerate([f'SELECT {wide} FROM t1 UNION (SELECT {wide} FROM t2 EXCEPT SELECT {wide} FROM t3)',
                            f'SELECT a FROM t1 INTERSECT (SELECT a FROM t2 UNION ALL (SELECT {wide} FROM t3 EXCEPT SELECT a FROM t4))',
                            f'SELECT {wide} FROM t1 AS x RIGHT JOIN t2 AS y ON x.a = y.a WHERE x.b IN (SELECT b FROM u) ORDER BY 1 LIMIT 3',
                            f'SELECT CASE WHEN a > 1 THEN 2 END AS k, {wide} FROM (SELECT * FROM t) AS s WHERE NOT (a = 1 OR b = 2)',
                            f"INSERT INTO t (a, b) SELECT {wide} FROM u WHERE c BETWEEN 1 AND 2",
                            f'SELECT (SELECT max(a) FROM u) AS m, -(-1), {wide} FROM t GROUP BY 1 HAVING count(*) > 1']):
        out.append((f'shared-print:{i}', 'print-shared', (s_, 'mindsdb')))
        out.append((f'shared-render:{i}', 'render-shared', (s_, ['postgres', 'mysql', 'sqlite'][i % 3])))
    # prepared statements: the column-discovery steps of joins (order of the steps is part of the result)
    for i, s in enumerate(['SELECT o.id, c.name, p.title FROM int1.orders AS o JOIN int1.customers AS c ON o.cid = c.id JOIN int1.products AS p ON o.pid = p.id WHERE o.id = ?',
                           'SELECT * FROM int1.orders AS o JOIN int1.customers AS c ON o.cid = c.id',
                           'SELECT c.name, o.id FROM int1.a AS o JOIN int1.b AS c ON o.x = c.x JOIN int1.c AS d ON d.x = c.x JOIN int1.d AS e ON e.x = d.x',
                           'SELECT t.a, t.b FROM int1.t1 AS t WHERE t.c = ?', 'SELECT e.x, d.x, c.name, o.id FROM int1.a AS o JOIN int1.b AS c ON o.x = c.x JOIN int1.c AS d ON d.x = c.x JOIN int1.d AS e ON e.x = d.x',
                           'SELECT t.id, m.y FROM int1.t1 AS t JOIN mindsdb.m1 AS m WHERE t.a = ?']):
        out.append((f'prepare:{i}', 'prepare', s))
    return out


def call(api, payload, shared=None):
    """Run one API call; returns its canonical result (JSON-able)."""
    from mindsdb_sql import parse_sql
    try:
        if api == 'parse':
            text, dialect = payload
            t = parse_sql(text, dialect)
            return ['ok', monitors.struct_key(t), t.to_string()]
        if api == 'plan':
            from mindsdb_sql.planner import plan_query
            kw = shared['catalog'] if shared and 'catalog' in shared else fresh_catalog()
            if shared and 'planner' in shared:
                plan = shared['planner'].from_query(parse_sql(payload, 'mindsdb'))      # one planner object, many statements
            else:
                plan = plan_query(parse_sql(payload, 'mindsdb'), **kw)
            return ['ok', monitors.struct_key(plan.steps), len(plan.steps)]
        if api == 'plan-cat':
            from mindsdb_sql.planner import plan_query
            text, variant = payload
            plan = plan_query(parse_sql(text, 'mindsdb'), **variant_catalog(variant))
            return ['ok', monitors.struct_key(plan.steps), len(plan.steps)]
        if api == 'render':
            from mindsdb_sql.render.sqlalchemy_render import SqlalchemyRender
            text, dialect = payload
            if dialect.endswith('-object'):
                # the renderer is given the caller's dialect object instead of a name
                import importlib
                obj = importlib.import_module('sqlalchemy.dialects.' + dialect[:-7]).dialect
                return ['ok', SqlalchemyRender(obj).get_string(parse_sql(text, 'mindsdb'))]
            rd = shared['renders'][dialect] if shared and 'renders' in shared else SqlalchemyRender(dialect)
            return ['ok', rd.get_string(parse_sql(text, 'mindsdb'))]
        if api in ('print-shared', 'render-shared'):
            from mindsdb_sql.render.sqlalchemy_render import SqlalchemyRender
            text, dialect = payload
            # in a shared round every thread is handed the SAME tree object (parsed once); elsewhere the call parses for itself
            t = shared['trees'][text] if shared and 'trees' in shared else parse_sql(text, 'mindsdb')
            if api == 'print-shared':
                return ['ok', t.to_string(), str(t) == t.to_string()]
            return ['ok', SqlalchemyRender(dialect).get_string(t)]
        if api == 'prepare':
            from mindsdb_sql.planner import QueryPlanner
            from vf.props.c12 import FakeExecutor
            pl, ex, out = QueryPlanner(**fresh_catalog()), FakeExecutor(), []
            for st in pl.prepare_steps(parse_sql(payload, 'mindsdb')):
                out.append(monitors.struct_key(st))
                st.set_result(ex.answer(st))
            return ['ok', out, len(out)]
    except Exception as e:
        return ['err', type(e).__name__, str(e)[:300]]
    raise ValueError(api)


def isolated_call(api, payload):
    """The call made in a forked child of a process that has only imported the library: no earlier call of any kind
    can have influenced it (the reference for 'depends only on the input')."""
    rfd, wfd = os.pipe()
    pid = os.fork()
    if pid == 0:
        code = 0
        try:
            os.close(rfd)
            data = json.dumps(call(api, payload)).encode()
            with os.fdopen(wfd, 'wb') as f:
                f.write(data)
        except BaseException:
            code = 3
        finally:
            os._exit(code)
    os.close(wfd)
    with os.fdopen(rfd, 'rb') as f:
        data = f.read()
    _, status = os.waitpid(pid, 0)
    if status != 0 or not data:
        raise RuntimeError(f'isolated call failed: status {status}')
    return json.loads(data)


def golden_main(seed, out):
    core.use_repo()
    import mindsdb_sql.planner, mindsdb_sql.render.sqlalchemy_render      # noqa: imports only, no call
    monitors.parser_classes(), monitors.lexer_classes()                   # imports the dialect modules (LALR tables are built at import)
    res = {}
    for cid, api, payload in corpus(seed):
        res[cid] = isolated_call(api, payload)
    res['__class_state__'] = class_state()
    with open(out, 'w') as f:
        json.dump(res, f)


def class_state():
    """Digest of shared class-level state that no call may change."""
    from mindsdb_sql.parser.ast.select.identifier import RESERVED_KEYWORDS, get_reserved_words
    get_reserved_words()
    st = {'reserved': sorted(RESERVED_KEYWORDS)}
    for d, P in monitors.parser_classes().items():
        st['nprod:' + d] = len(P._grammar.Productions)
        st['nstates:' + d] = len(P._lrtable.lr_action)
    for d, L in monitors.lexer_classes().items():
        st['tokens:' + d] = sorted(L.tokens)
    # the SQLAlchemy dialect classes are the caller's objects: simple-valued class attributes must stay as imported
    import importlib
    for d in ('mysql', 'postgresql', 'sqlite', 'mssql', 'oracle'):
        try:
            cls = importlib.import_module('sqlalchemy.dialects.' + d).dialect
        except Exception:
            continue
        for klass in tuple(cls.__mro__[:3]) + tuple(getattr(cls, 'preparer', object).__mro__[:2]):
            for k, v in sorted(vars(klass).items()):
                if not k.startswith('__') and isinstance(v, (int, float, str, bool, tuple, type(None))):
                    st[f'sa:{d}:{klass.__name__}.{k}'] = repr(v)[:80]
                elif not k.startswith('__') and isinstance(v, (set, frozenset)) and all(isinstance(x, str) for x in v):
                    st[f'sa:{d}:{klass.__name__}.{k}'] = core.digest(sorted(v))      # e.g. the reserved words of the identifier preparer
    return core.digest(core.canon(st), n=16)


def golden(seed, hashseed='0'):
    out = os.path.join(core.VERIF, '.work', f'c20-golden-{os.getpid()}-{hashseed}.json')
    os.makedirs(os.path.dirname(out), exist_ok=True)
    env = dict(os.environ, PYTHONHASHSEED=str(hashseed), PYTHONPATH=core.VERIF, VERIF_REPO=core.REPO)
    p = subprocess.run([sys.executable, '-c', f'from vf.props import c20; c20.golden_main({seed!r}, {out!r})'],
                       cwd=core.VERIF, env=env, capture_output=True, text=True, timeout=600)
    if p.returncode != 0:
        raise core.Inconclusive('golden process failed: ' + p.stderr[-400:])
    with open(out) as f:
        res = json.load(f)
    os.remove(out)
    return res


# ---------------------------------------------------------------------------------------------------------------
# yield injector (M7)
# ---------------------------------------------------------------------------------------------------------------

class YieldInjector:
    TOOL = 4

    def __init__(self, seed, prob=0.004):
        self.prefix = core.REPO + os.sep
        self.focus = None           # when set: only files under this sub-directory yield (targeted stress)
        self.focus_prob = 0.03
        self.prob = prob
        self.tls = threading.local()
        self.seed = seed
        self.switches = 0
        self.lines = set()
        self.last = None
        self.on = False
        mon = sys.monitoring
        try:
            mon.use_tool_id(self.TOOL, 'vf-yield')
        except ValueError:
            pass
        mon.register_callback(self.TOOL, mon.events.LINE, self._line)

    def _line(self, code, lineno):
        if not code.co_filename.startswith(self.prefix):
            return sys.monitoring.DISABLE
        if not self.on:
            return
        tid = threading.get_ident()
        if self.last is not None and self.last != tid:
            self.switches += 1                       # races on this counter only perturb the count, never a verdict
            if len(self.lines) < 5000:
                self.lines.add((os.path.basename(code.co_filename), lineno))
        self.last = tid
        r = getattr(self.tls, 'r', None)
        if r is None:
            r = self.tls.r = random.Random(hash((self.seed, tid)) & 0xffffffff)
        if self.focus is not None:
            if self.focus in code.co_filename and r.random() < self.focus_prob:
                time.sleep(0)
        elif r.random() < self.prob:
            time.sleep(0)

    def start(self):
        self.on = True
        sys.monitoring.set_events(self.TOOL, sys.monitoring.events.LINE)

    def stop(self):
        self.on = False
        sys.monitoring.set_events(self.TOOL, 0)


# ---------------------------------------------------------------------------------------------------------------
# the four axes
# ---------------------------------------------------------------------------------------------------------------

def axis_threads(ctx, items, gold, rounds):
    from mindsdb_sql.render.sqlalchemy_render import SqlalchemyRender
    acc = ctx.acc
    inj = YieldInjector(ctx.seed * 1000 + ctx.shard)
    old_sw = sys.getswitchinterval()
    sys.setswitchinterval(1e-4)
    try:
        for rnd in range(rounds):
            if ctx.out_of_time():
                break
            r = core.rng_for(ctx.seed, 'C20', 'threads', ctx.shard, rnd)
            shared = {'catalog': fresh_catalog(), 'renders': {d: SqlalchemyRender(d) for d in ('mysql', 'postgresql', 'postgres', 'sqlite', 'mssql', 'oracle', 'Snowflake')}}
            # few inputs, repeated by many threads; model-version inputs always in the mix
            pm = [it for it in items if it[0].startswith('plan-model')]
            if rnd % 4 == 2:
                # focused round: every thread renders (shared renderer objects, casts of every type - what the dialect
                # compilers warn about or leave out is decided while other renders are in flight)
                inj.focus = os.sep + os.path.join('mindsdb_sql', 'render') + os.sep
                pool = [it for it in items if it[1] == 'render']
                work = [[pool[r.randrange(len(pool))] for _ in range(14)] for _ in range(NTHREADS)]
                acc.count('focused_rounds_render')
            elif rnd % 4 == 3:
                # focused round: every thread prints / renders the same few tree objects (yields inside the tree printers and the renderer)
                from mindsdb_sql import parse_sql
                inj.focus = os.sep + 'mindsdb_sql' + os.sep
                pool = [it for it in items if it[1] in ('print-shared', 'render-shared')]
                shared['trees'] = {text: parse_sql(text, 'mindsdb') for text in {it[2][0] for it in pool}}
                work = [[pool[r.randrange(len(pool))] for _ in range(10)] for _ in range(NTHREADS)]
                acc.count('focused_rounds_shared_trees')
            elif rnd % 2 == 1:
                # focused round: every thread plans the same models in different versions against ONE shared catalog,
                # yields only inside the planner
                inj.focus = os.sep + os.path.join('mindsdb_sql', 'planner') + os.sep
                pool = [it for it in pm if it[0].startswith(('plan-model-select', 'plan-model-ts'))]
                work = [[pool[r.randrange(len(pool))] for _ in range(14)] for _ in range(NTHREADS)]
                acc.count('focused_rounds')
            else:
                inj.focus = None
                pool = r.sample(pm, 12) + r.sample(items, 12)
                work = [[pool[r.randrange(len(pool))] for _ in range(8)] for _ in range(NTHREADS)]
            results = [[] for _ in range(NTHREADS)]
            events = []
            start = threading.Barrier(NTHREADS)

            def run(k):
                start.wait()
                for cid, api, payload in work[k]:
                    events.append(('call', k, cid))
                    res = call(api, payload, shared)
                    events.append(('ret', k, cid))
                    results[k].append((cid, api, res))
            ths = [threading.Thread(target=run, args=(k,)) for k in range(NTHREADS)]
            inj.start()
            for t in ths:
                t.start()
            for t in ths:
                t.join(timeout=300)
            inj.stop()
            if any(t.is_alive() for t in ths):
                raise core.Inconclusive('a worker thread did not finish (watchdog)')
            for k in range(NTHREADS):
                for cid, api, res in results[k]:
                    acc.ev()
                    acc.count('thread_calls_judged')
                    acc.add('apis', api)
                    acc.key(cid, 'threads')
                    if res != gold[cid]:
                        acc.fail({'axis': 'threads', 'api': api, 'input_class': cid.split(':')[0], 'differs': diff_kind(gold[cid], res)},
                                 {'input': cid, 'golden': gold[cid], 'observed': res, 'round': rnd, 'thread': k,
                                  'history_tail': [list(e) for e in events[-12:]]})
            # after the round the process must be as it was: the deep statements (sensitive to process-wide interpreter settings)
            # still give their own results
            for cid, api, payload in [it for it in items if it[0].startswith('deep:')]:
                res = call(api, payload)
                acc.count('probe_calls_after_thread_rounds')
                if res != gold[cid]:
                    acc.fail({'axis': 'process-state-after-threads', 'api': api, 'input_class': 'deep', 'differs': diff_kind(gold[cid], res)},
                             {'input': cid, 'golden': str(gold[cid])[:200], 'observed': str(res)[:200], 'round': rnd, 'recursion_limit_now': sys.getrecursionlimit()})
            # the shared catalog must still behave like a fresh one (judged by re-running, not by mere mutation)
            for cid, api, payload in [it for it in pool if it[1] == 'plan'][:6]:
                res = call(api, payload, shared)
                acc.count('catalog_reuse_calls')
                if res != gold[cid]:
                    acc.fail({'axis': 'catalog-carryover-after-threads', 'api': api, 'input_class': cid.split(':')[0], 'differs': diff_kind(gold[cid], res)},
                             {'input': cid, 'golden': gold[cid], 'observed': res})
    finally:
        sys.setswitchinterval(old_sw)
    acc.count('thread_switches_in_library', inj.switches)
    for ln in list(inj.lines)[:400]:
        acc.add('switch_lines', f'{ln[0]}:{ln[1]}')


def diff_kind(g, o):
    if g[0] != o[0]:
        return f'{g[0]}->{o[0]}' + (':' + o[1] if o[0] == 'err' else '')
    if g[0] == 'err':
        return 'error-class' if g[1] != o[1] else 'error-message'
    return 'result'


def axis_history(ctx, items, gold, rounds):
    from mindsdb_sql.render.sqlalchemy_render import SqlalchemyRender
    acc = ctx.acc
    for rnd in range(rounds):
        if ctx.out_of_time():
            break
        r = core.rng_for(ctx.seed, 'C20', 'history', ctx.shard, rnd)
        order = list(items)
        r.shuffle(order)
        order = order[:90]
        order += r.sample(order, 25)        # some inputs come round again later in the same history
        # one SHARED catalog and renderers for the whole history: re-use must not alter later calls
        shared = {'catalog': fresh_catalog(), 'renders': {d: SqlalchemyRender(d) for d in ('mysql', 'postgresql', 'postgres', 'sqlite', 'mssql', 'oracle', 'Snowflake')}} if rnd % 2 else None
        if shared is not None and rnd % 4 == 3:
            from mindsdb_sql.planner.query_planner import QueryPlanner
            shared['planner'] = QueryPlanner(**shared['catalog'])
        seen = {}
        for cid, api, payload in order:
            res = call(api, payload, shared)
            seen[cid] = seen.get(cid, 0) + 1
            acc.ev()
            acc.count('history_calls_judged')
            acc.add('apis', api)
            if shared is not None and api == 'plan':
                acc.count('catalog_reuse_calls')
            acc.key(cid, 'history')
            if res != gold[cid]:
                acc.fail({'axis': 'history' if shared is None else 'history+shared-planner' if 'planner' in shared else 'history+shared-catalog', 'api': api, 'input_class': cid.split(':')[0],
                          'differs': diff_kind(gold[cid], res)},
                         {'input': cid, 'golden': gold[cid], 'observed': res, 'round': rnd, 'previous_calls': [o[0] for o in order[:order.index((cid, api, payload))]][-8:], 'calls_of_this_input_so_far': seen.get(cid, 0)})
        if class_state() != gold['__class_state__']:
            acc.fail({'axis': 'history', 'api': 'class-state', 'input_class': '-', 'differs': 'shared-class-state-changed'}, {'round': rnd})


def cold_main(inp, out):
    """Child process of the cold-start axis: nothing of the library beyond `import mindsdb_sql` has run when several threads
    make the process's very first calls at once (lazy module-level initialisation, first-use imports).
    `inp` holds the per-thread work lists [[cid, api, payload], ...]; writes [[cid, result], ...]."""
    core.use_repo()
    with open(inp) as f:
        work = json.load(f)
    n = len(work)
    results = [[] for _ in range(n)]
    start = threading.Barrier(n)
    sys.setswitchinterval(1e-6)

    def run(k):
        start.wait()
        for cid, api, payload in work[k]:
            results[k].append([cid, call(api, tuple(payload) if isinstance(payload, list) else payload)])
    ths = [threading.Thread(target=run, args=(k,)) for k in range(n)]
    for t in ths:
        t.start()
    for t in ths:
        t.join(timeout=120)
    with open(out, 'w') as f:
        json.dump([x for k in range(n) for x in results[k]], f)


def axis_cold_threads(ctx, items, gold, rounds):
    acc = ctx.acc
    kw = [it for it in items if it[0].startswith('parse-kw')]
    light = [it for it in items if it[0].startswith(('parse:', 'parse-c', 'parse-kw', 'parse-star', 'render:', 'plan-fed', 'plan-model:'))]
    for rnd in range(rounds):
        if ctx.out_of_time():
            break
        r = core.rng_for(ctx.seed, 'C20', 'cold', ctx.shard, rnd)
        # every other round starts each thread on statements whose identifiers are named like keywords (what is printed for
        # them depends on tables that are filled at first use)
        # (in two of four rounds all threads start in ONE dialect other than mindsdb: whatever the library loads lazily on the first
        # print - modules of the other dialects included - is then loaded while the other threads are printing)
        first = [it for it in kw if it[0].endswith(':mysql')] if rnd % 4 == 0 else [it for it in kw if it[0].endswith(':sqlite')] if rnd % 4 == 2 else kw
        work = [([first[r.randrange(len(first))] for _ in range(3)] if rnd % 2 == 0 else []) + [light[r.randrange(len(light))] for _ in range(5)]
                for _ in range(NTHREADS)]
        base = os.path.join(core.VERIF, '.work', f'c20-cold-{os.getpid()}-{rnd}')
        os.makedirs(os.path.dirname(base), exist_ok=True)
        with open(base + '.in', 'w') as f:
            json.dump(work, f)
        env = dict(os.environ, PYTHONHASHSEED='0', PYTHONPATH=core.VERIF, VERIF_REPO=core.REPO)
        try:
            p = subprocess.run([sys.executable, '-c', f"from vf.props import c20; c20.cold_main({base + '.in'!r}, {base + '.out'!r})"],
                               cwd=core.VERIF, env=env, capture_output=True, text=True, timeout=300)
            if p.returncode != 0 or not os.path.exists(base + '.out'):
                acc.notes.append('cold-start process failed: ' + p.stderr[-200:])
                continue
            with open(base + '.out') as f:
                res = json.load(f)
        finally:
            for ext in ('.in', '.out'):
                if os.path.exists(base + ext):
                    os.remove(base + ext)
        acc.count('cold_start_processes')
        for cid, got in res:
            acc.ev()
            acc.count('cold_thread_calls_judged')
            acc.key(cid, 'cold-threads')
            if got != gold[cid]:
                acc.fail({'axis': 'threads-at-first-use', 'api': cid.split(':')[0].split('-')[0], 'input_class': cid.split(':')[0], 'differs': diff_kind(gold[cid], got)},
                         {'input': cid, 'golden': gold[cid], 'observed': got, 'round': rnd})


def axis_hashseed(ctx, gold, seeds):
    acc = ctx.acc
    for hs in seeds:
        if ctx.out_of_time():
            break
        other = golden(ctx.seed, hashseed=hs)
        acc.count('hashseed_processes')
        for cid, g in gold.items():
            if cid.startswith('__'):
                continue
            acc.ev()
            acc.key(cid, 'hashseed')
            if other.get(cid) != g:
                acc.fail({'axis': 'hashseed', 'api': cid.split('-')[0].split(':')[0], 'input_class': cid.split(':')[0], 'differs': diff_kind(g, other.get(cid, ['missing']))},
                         {'input': cid, 'golden': g, 'observed': other.get(cid), 'PYTHONHASHSEED': hs})


def run_shard(ctx):
    acc = ctx.acc
    monitors.install_parser_monitors() if False else None
    items = corpus(ctx.seed)
    gold = golden(ctx.seed, '0')
    acc.count('golden_inputs', len(items))
    quick = ctx.tier == 'quick'
    # cheap axes first, so that the time budget can only cut the (repeatable) thread rounds short
    if ctx.shard < 4:
        seeds = [[1], [2], [3], ['random']][ctx.shard] if quick else [[1, 5], [2, 6], [3, 7], ['random', 11]][ctx.shard]
        axis_hashseed(ctx, gold, seeds)
    axis_history(ctx, items, gold, rounds=4 if quick else 12)
    axis_cold_threads(ctx, items, gold, rounds=4 if quick else 16)
    axis_threads(ctx, items, gold, rounds=4 if quick else 30)
    if ctx.shard == 0:
        acc.sample({'golden_examples': {k: gold[k] for k in list(gold)[:3]}})


def replay(path):
    w = json.load(open(path))
    print(json.dumps(w, indent=1)[:3000])
    return 1
