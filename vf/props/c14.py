"""C14 - in a table-model join the model gets the right rows and arguments, only those.

Workload: joins of 1-2 data tables with a non-timeseries model (projects, versions, model in the middle), WHERE built
from a known list of conjunct kinds, each carrying a UNIQUE constant so that wherever it ends up identifies it; USING
options (plain, alias-prefixed, mixed case); ON conditions between model and table columns.  Monitor: boundary of
plan_query; reflective search of each step for the marker constants.  Oracle: generator ground truth - which
conjuncts are top-level equalities between a model column and a constant (-> model arguments, gone from every fetch
and neutralised in the outer filter), which are table conditions (never arguments; may be pushed only into their own
table's fetch, unchanged), which must stay outer filters (under NOT / OR / inside functions / non-equalities)."""
import copy

from vf import core, monitors
from vf.gen import fedgen

ID = 'C14'
LEVEL = 'exploration'
TECHNIQUE = 'runtime monitor on plan_query with unique marker constants per WHERE conjunct: structural placement of every conjunct checked against generator ground truth'
RULE = ('queries = table(-table) JOIN model [JOIN table] with 0-4 WHERE conjuncts of kinds {model-eq, table-cmp, table-in, model-gt, not-model-eq, '
        'not-table, or-mix, func-wrapped, cross, nested-and} in random order, USING options, ON conditions; x catalog forms; non-trivial = >= 1 '
        'conjunct; distinct by (conjunct kinds, shape, catalog form)')
RULE += '; model column = expression around a literal (casts, typed literals, parentheses, arithmetic), option names with several dots / back-quotes; also: constant-first comparisons, OR in ON, input columns named like fragments of the target, every join spelling (pushes under right / full joins judged)'
ASSUMPTIONS = ['equalities on the model\'s target column (to_predict) are treated specially by the planner and are not generated',
               'an alias-prefixed USING option whose prefix is not the model alias belongs to another object and may be dropped']
BUDGET = {'quick': (8, 240), 'thorough': (16, 1800)}
HOME = {'t1': 'int1', 't2': 'int2', 't3': 'int1'}


def floors(tier):
    return {'plans_checked': 1500, 'len:conjunct_kinds': 10, 'using_checked': 300, 'columns_map_checked': 100, 'len:shapes': 3}


def ceilings(tier):
    # fractions of all evaluations; the unchanged tree stays below about two thirds of each
    return {'internal_error_is_C09': 0.01}


class Q:
    pass


def build(r):
    q = Q()
    q.model_project = r.choice(['mindsdb', 'proj'])
    q.model_name = r.choice(['m1', 'm1', '7days']) if q.model_project == 'mindsdb' else r.choice(['m2', 'm2', '2024_churn'])
    q.version = r.choice([None, None, '3'])
    mref = f'{q.model_project}.{q.model_name}' + (f'.{q.version}' if q.version else '')
    t = r.choice(['t1', 't2'])
    q.shape = r.choice(['t-m', 't-m', 't-u-m', 't-m-v', 't-m-v-w'])
    frm = f'{HOME[t]}.{t} AS t'
    q.tables = {'t': (HOME[t], t)}
    q.on_conj = []
    q.on_has_or = False
    q.u_join = None
    if q.shape == 't-u-m':
        u = r.choice(['t2', 't3'])
        on_extra = ''
        k = r.random()
        if k < 0.25:
            on_extra = ' AND u.a = 9001'
            q.on_conj.append({'kind': 'on-const', 'consts': [9001], 'table': 'u', 'text': 'u.a = 9001'})
        elif k < 0.5:
            on_extra = ' OR u.a = 9002'
            q.on_has_or = True
            q.on_conj.append({'kind': 'on-or-const', 'consts': [9002], 'table': 'u', 'text': 'u.a = 9002'})
        # every spelling of the join kinds the grammar reads; ON filters / key lists may be pushed for inner and left joins only
        q.u_join = r.choice(['JOIN', 'LEFT JOIN', 'JOIN', 'LEFT JOIN', 'INNER JOIN', 'LEFT OUTER JOIN', 'RIGHT JOIN',
                             'FULL JOIN', 'FULL OUTER JOIN', 'OUTER JOIN'])
        frm += f' {q.u_join} {HOME[u]}.{u} AS u ON t.id = u.id{on_extra}'
        q.tables['u'] = (HOME[u], u)
    q.columns_map = None
    on = ''
    if r.random() < 0.3:
        mc, tc = r.choice(['inp', 'x1']), r.choice(['a', 'id'])
        on = f' ON m.{mc} = t.{tc}' if r.random() < 0.5 else f' ON t.{tc} = m.{mc}'
        q.columns_map = {mc: ['t', tc]}
    frm += f' JOIN {mref} AS m{on}'
    q.on_eq = [('t', 'id', 'u', 'id')] if q.shape == 't-u-m' else []
    if q.shape in ('t-m-v', 't-m-v-w'):
        v = r.choice(['t2', 't3'])
        frm += f' {r.choice(["JOIN", "LEFT JOIN"])} {HOME[v]}.{v} AS v ON t.id = v.id'
        q.tables['v'] = (HOME[v], v)
        q.on_eq.append(('t', 'id', 'v', 'id'))
    if q.shape == 't-m-v-w':
        # a second table after the model, joined on a column of the MODEL's output (or of the first table): the position of a member
        # in the join and the number of tables fetched so far differ from here on
        w = 't3' if v == 't2' else 't2'
        partner = r.choice(['m', 'm', 't'])
        frm += f' JOIN {HOME[w]}.{w} AS w ON w.id = {partner}.{"k9" if partner == "m" else "id"}'
        q.tables['w'] = (HOME[w], w)
        if partner == 't':
            q.on_eq.append(('w', 'id', 't', 'id'))
    # conjuncts with unique constants
    q.conj = []
    k0 = 100 + r.randint(0, 50) * 10
    kinds = [r.choice(['model-eq', 'model-eq', 'table-cmp', 'table-cmp', 'table-cmp-rev', 'table-in', 'model-gt', 'not-model-eq', 'not-table', 'or-mix',
                       'func-wrapped', 'cross', 'cross-between', 'nested-and', 'model-eq-str', 'model-eq-expr', 'model-eq-nonconst'])
             for _ in range(r.randint(0, 4))]
    used_cols = set()
    for i, k in enumerate(kinds):
        c = k0 + i
        if k in ('model-eq', 'model-eq-str'):
            # input columns; some are spelled as fragments of the models' target names ('y', 'target'): still inputs
            col = r.choice([x for x in ['p1', 'p2', 'p3', 'p4', 'tar', 'get', 'arg', 'targe', 'Y1', 'yy'] if x not in used_cols] or ['p5'])
            used_cols.add(col)
            val = c if k == 'model-eq' else f's{c}'
            lit = str(c) if k == 'model-eq' else f"'s{c}'"
            text = f'm.{col} = {lit}' if r.random() < 0.8 else f'{lit} = m.{col}'
            q.conj.append({'kind': 'model-eq', 'text': text, 'consts': [val], 'model_arg': (col, val)})
        elif k == 'model-eq-nonconst':
            # equality of a model column with something that is not a constant (a session variable, a function call): a condition, not an argument
            col = r.choice([x for x in ['v1', 'v2'] if x not in used_cols] or ['v3'])
            used_cols.add(col)
            w = 'thr_' + ''.join('abcdefghij'[int(d)] for d in str(c))      # (variable names take no digits)
            rhs = r.choice([f'@{w}', f'@@{w}', f'fn{c}()', f'@{w}'])
            text = f'm.{col} = {rhs}' if r.random() < 0.7 else f'{rhs} = m.{col}'
            q.conj.append({'kind': 'model-eq-nonconst:' + ('variable' if rhs[0] == '@' else 'function'), 'text': text, 'consts': [], 'stay': True,
                           'col': col, 'stay_text': w if rhs[0] == '@' else f'fn{c}'})
        elif k == 'model-eq-expr':
            # the value is written as an expression around a literal (cast, typed literal, parentheses, arithmetic): the planner may
            # evaluate it into an argument or leave the condition as a filter - what it may not do is lose it
            col = r.choice([x for x in ['e1', 'e2', 'e3'] if x not in used_cols] or ['e4'])
            used_cols.add(col)
            form = r.choice(['cast', 'colon-cast', 'paren', 'plus-zero', 'typed-literal', 'cast-str', 'rev-cast'])
            val = f's{c}' if form in ('typed-literal', 'cast-str') else c
            text = {'cast': f'm.{col} = CAST({c} AS int)', 'colon-cast': f'm.{col} = {c}::int', 'paren': f'm.{col} = ({c})', 'plus-zero': f'm.{col} = {c} + 0',
                    'typed-literal': f"m.{col} = DATE 's{c}'", 'cast-str': f"m.{col} = CAST('s{c}' AS date)", 'rev-cast': f'CAST({c} AS float) = m.{col}'}[form]
            q.conj.append({'kind': 'model-eq-expr:' + form, 'text': text, 'consts': [val], 'flex_arg': (col, val)})
        elif k == 'table-cmp':
            op = r.choice(['=', '>', '<', '>=', '!='])
            al = r.choice(list(q.tables))
            q.conj.append({'kind': k, 'text': f'{al}.a {op} {c}', 'consts': [c], 'table': al, 'op': op})
        elif k == 'table-cmp-rev':
            op = r.choice(['<', '<=', '>', '>='])
            al = r.choice(list(q.tables))
            q.conj.append({'kind': 'table-cmp', 'text': f'{c} {op} {al}.a', 'consts': [c], 'table': al, 'op': op})
        elif k == 'table-in':
            q.conj.append({'kind': k, 'text': f't.id IN ({c}, {c + 1000})', 'consts': [c, c + 1000], 'table': 't', 'op': 'in'})
        elif k == 'model-gt':
            q.conj.append({'kind': k, 'text': f'm.q1 > {c}', 'consts': [c], 'stay': True})
        elif k == 'not-model-eq':
            q.conj.append({'kind': k, 'text': f'NOT m.q2 = {c}', 'consts': [c], 'stay': True, 'under': 'not'})
        elif k == 'not-table':
            q.conj.append({'kind': k, 'text': f'NOT t.a = {c}', 'consts': [c], 'stay': True, 'under': 'not'})
        elif k == 'or-mix':
            q.conj.append({'kind': k, 'text': f'(m.q3 = {c} OR t.a = {c + 1000})', 'consts': [c, c + 1000], 'stay': True, 'under': 'or'})
        elif k == 'func-wrapped':
            q.conj.append({'kind': k, 'text': f'abs(t.a) = {c}', 'consts': [c], 'stay': True, 'under': 'function'})
        elif k == 'cross':
            q.conj.append({'kind': k, 'text': f't.a + {c} = m.q4', 'consts': [c], 'stay': True})
        elif k == 'cross-between':
            # a range test on a table column with ONE bound from the model: mentions the model, so it is no filter of the table's fetch
            text = r.choice([f't.a BETWEEN {c} AND m.q5', f't.a BETWEEN m.q5 AND {c}', f't.id BETWEEN {c} AND m.q5 + 1'])
            q.conj.append({'kind': k, 'text': text, 'consts': [c], 'stay': True})
        elif k == 'nested-and':
            col = r.choice([x for x in ['p6', 'p7'] if x not in used_cols] or ['p8'])
            used_cols.add(col)
            q.conj.append({'kind': k, 'text': f'(m.{col} = {c} AND t.id > {c + 1000})', 'consts': [c, c + 1000], 'model_arg': (col, c), 'nested': True})
    # an equality on the very model column that the ON clause maps to a table column: still an argument
    if q.columns_map and r.random() < 0.35:
        mc = next(iter(q.columns_map))
        c = k0 + 90
        q.conj.append({'kind': 'model-eq-mapped-column', 'text': f'm.{mc} = {c}', 'consts': [c], 'model_arg': (mc, c)})
    # the same conjunct written twice (generated SQL does that): both copies are the same condition
    dupable = [c for c in q.conj if c['kind'] in ('model-eq', 'table-cmp', 'table-in')]
    if dupable and r.random() < 0.2:
        q.conj.append(dict(r.choice(dupable), duplicate=True))
    r.shuffle(q.conj)
    targets = r.choice(['t.id, m.y', 't.id, t.a, m.y AS pred', 'm.y'])
    s = f'SELECT {targets} FROM {frm}'
    if q.conj:
        s += ' WHERE ' + ' AND '.join(c['text'] for c in q.conj)
    q.t_alias = 't'
    if r.random() < 0.12:
        # the first table's alias is spelled like the (aliased) model's own name: the model is visible under its alias only
        import re as _re
        q.t_alias = r.choice([q.model_name, q.model_name.upper()])
        s = _re.sub(r'\bt\.', q.t_alias + '.', s).replace(' AS t ', f' AS {q.t_alias} ')
        if q.columns_map:
            q.columns_map = {k: [q.t_alias.lower(), v[1]] for k, v in q.columns_map.items()}
    q.using = {}
    if r.random() < 0.4:
        # (names that begin with the characters of the alias prefix: cutting the prefix must cut exactly the prefix)
        opts = r.sample([('a', 7001), ('m.b', 7002), ('Mode', 7003), ('t.c', 7004), ('M.Key', 7005), ('deep', 7006), ('m.max_tokens', 7007),
                         ('m.m', 7008), ('m.mm_2', 7009), ('max_m', 7010), ('m.prompt.template', 7011), ('m.a.b.c', 7012), ('x.y.z', 7013),
                         ('`m`.bq', 7014), ('m.`d.e`', 7015)], r.randint(1, 3))
        # values of every kind an option can take; strings spelled like keywords / numbers stay strings
        VALS = [("'true'", 'true'), ("'NULL'", 'NULL'), ("'False'", 'False'), ('true', True), ('null', None), ('1.5', 1.5), ("'7'", '7'), ("'x y'", 'x y'),
                ("[1, 'null']", [1, 'null']), ('{"j": "true", "n": null}', {'j': 'true', 'n': None}), ("''", ''), ('false', False), ("'1e5'", '1e5')]
        lits = {}
        for j, (k, v) in enumerate(list(opts)):
            if r.random() < 0.4:
                lit, val = VALS[(v + j) % len(VALS)]
                lits[k] = lit
                opts[j] = (k, val)
        s += ' USING ' + ', '.join(f'{k} = {lits.get(k, v)}' for k, v in opts)
        for k, v in opts:
            k = k.replace('`', '')
            if '.' in k:
                pre, rest = k.split('.', 1)
                if pre.lower() == 'm':
                    q.using[rest.lower()] = v
                    if pre != 'm':
                        q.using_case_prefix = True
            else:
                q.using[k.lower()] = v
    q.has_using = ' USING ' in s
    q.text = s
    return q


def consts_in(obj):
    out = set()
    if obj is None:
        return out
    for path, o in monitors.walk(obj):
        if type(o).__name__ == 'Constant':
            out.add(o.value)
    return out


def conjuncts(w):
    if w is None:
        return []
    if type(w).__name__ == 'BinaryOperation' and w.op.lower() == 'and':
        return conjuncts(w.args[0]) + conjuncts(w.args[1])
    return [w]


def norm_text(node):
    """text of an expression with table/alias qualifiers removed"""
    n = copy.deepcopy(node)
    for path, o in monitors.walk(n):
        if type(o).__name__ == 'Identifier' and len(o.parts) > 1 and isinstance(o.parts[-1], str):
            o.parts = [o.parts[-1]]
        if hasattr(o, 'parentheses'):
            o.parentheses = False
    return ' '.join(n.to_string().lower().replace('`', '').split())


def judge(q, plan):
    from mindsdb_sql import parse_sql
    out = []
    steps = plan.steps
    flat = []
    for st in steps:
        flat.append(st)
        if type(st).__name__ == 'MapReduceStep':
            flat += st.step if isinstance(st.step, list) else [st.step]
    applies = [s for s in flat if type(s).__name__ == 'ApplyPredictorStep']
    fetches = [s for s in flat if type(s).__name__ == 'FetchDataframeStep']
    if len(applies) != 1:
        out.append(({'cond': 'apply-step-count', 'n': len(applies)}, {}))
        return out
    ap = applies[0]
    # (a) input of the model = the data joined before it
    df = ap.dataframe.step_num if type(ap.dataframe).__name__ == 'Result' else None
    src = next((s for s in flat if s.step_num == df), None)
    if src is None:
        out.append(({'cond': 'model-input-not-a-step'}, {'dataframe': repr(ap.dataframe)}))
    else:
        want = 'JoinStep' if q.shape == 't-u-m' else 'FetchDataframeStep'
        if type(src).__name__ != want:
            out.append(({'cond': 'model-input-wrong-step', 'shape': q.shape, 'got': type(src).__name__}, {}))
        elif want == 'FetchDataframeStep':
            ft = src.query.from_table
            if str(ft.parts[-1]).lower() != q.tables['t'][1] or str(src.integration).lower() != q.tables['t'][0]:
                out.append(({'cond': 'model-input-wrong-table'}, {'fetch': repr(src)[:160]}))
    # namespace / version
    if str(ap.namespace).lower() != q.model_project:
        out.append(({'cond': 'model-namespace'}, {'namespace': ap.namespace}))
    pparts = [str(p) for p in ap.predictor.parts]
    if (q.version and q.version not in pparts) or (not q.version and any(p.isdigit() for p in pparts)):
        out.append(({'cond': 'model-version'}, {'predictor': pparts}))
    # (b) model arguments
    want_args = {}
    for c in q.conj:
        if 'model_arg' in c and not c.get('nested_ignored'):
            want_args[c['model_arg'][0]] = c['model_arg'][1]
    got_args = dict(ap.row_dict or {})
    for col, val in want_args.items():
        if got_args.get(col) != val:
            kind = next(c['kind'] for c in q.conj if c.get('model_arg', (None,))[0] == col)
            out.append(({'cond': 'model-equality-not-an-argument', 'conjunct': kind}, {'column': col, 'expected': val, 'row_dict': repr(ap.row_dict)}))
    flex = {c['flex_arg'][0]: c for c in q.conj if 'flex_arg' in c}
    for col, c in flex.items():
        if col in got_args and got_args[col] != c['flex_arg'][1] and str(got_args[col]) != str(c['flex_arg'][1]):
            out.append(({'cond': 'model-argument-wrong-value', 'conjunct': c['kind']}, {'column': col, 'expected': c['flex_arg'][1], 'row_dict': repr(ap.row_dict)}))
    for col, val in got_args.items():
        if col in flex:
            continue
        if col not in want_args:
            src_c = next((c['kind'] for c in q.conj if val in c['consts'] or c.get('col') == col), 'unknown')
            out.append(({'cond': 'non-argument-became-argument', 'conjunct': src_c}, {'column': col, 'value': val, 'row_dict': repr(ap.row_dict)}))
    # (c) what is pushed into fetches
    for f in fetches:
        fw = f.query.where if f.query is not None else None
        integ = str(f.integration).lower()
        ftab = str(f.query.from_table.parts[-1]).lower() if type(f.query.from_table).__name__ == 'Identifier' else '?'
        falias = str(f.query.from_table.alias.parts[-1]).lower() if getattr(f.query.from_table, 'alias', None) is not None else None
        for cj in conjuncts(fw):
            cs = consts_in(cj)
            keeps_unmatched_right = q.u_join in ('RIGHT JOIN', 'RIGHT OUTER JOIN', 'FULL JOIN', 'FULL OUTER JOIN', 'OUTER JOIN')
            if type(cj).__name__ == 'BinaryOperation' and cj.op.lower() == 'in' and type(cj.args[1]).__name__ == 'Parameter':
                # semi-join restriction: only sound when the ON clause is a conjunction
                if q.on_has_or and (integ, ftab) == q.tables.get('u'):
                    out.append(({'cond': 'semi-join-filter-although-on-has-or'}, {'fetch': repr(f)[:200]}))
                elif keeps_unmatched_right and (integ, ftab) == q.tables.get('u'):
                    out.append(({'cond': 'semi-join-filter-under-right-or-full-join', 'join': q.u_join}, {'fetch': repr(f)[:200]}))
                else:
                    # WHICH rows the restriction is built from: the distinct values of the partner column of an ON equality of this
                    # table, taken from that partner's own fetch - nothing else
                    try:
                        sub = next(s_ for s_ in flat if s_.step_num == cj.args[1].value.step_num)
                        srcf = next(s_ for s_ in flat if s_.step_num == sub.dataframe.step_num)
                        src_alias = str(srcf.query.from_table.alias.parts[-1]).lower()
                        dist_col = str(sub.query.targets[0].parts[-1]).lower()
                        this_col = str(cj.args[0].parts[-1]).lower()
                        ta_ = str(getattr(q, 't_alias', None) or 't').lower()      # (the first table's alias is sometimes spelled like the model)
                        norm_ = lambda a_: 't' if a_ == ta_ else a_
                        pair = {(norm_(falias), this_col), (norm_(src_alias), dist_col)}
                        if getattr(q, 'on_eq', None) is not None and not any({(a1, c1), (a2, c2)} == pair for a1, c1, a2, c2 in q.on_eq):
                            out.append(({'cond': 'semi-join-filter-built-from-a-table-the-on-clause-does-not-name', 'shape': q.shape},
                                        {'fetch': repr(f)[:200], 'source': repr(srcf)[:160], 'distinct': repr(sub)[:120]}))
                    except (StopIteration, AttributeError, IndexError):
                        pass
                continue
            on_owner = [c for c in q.on_conj if set(c['consts']) & cs]
            if on_owner:
                c = on_owner[0]
                if keeps_unmatched_right:
                    out.append(({'cond': 'on-clause-filter-pushed-under-right-or-full-join', 'join': q.u_join}, {'fetch': repr(f)[:200]}))
                    continue
                if c['kind'] == 'on-or-const':
                    out.append(({'cond': 'on-clause-filter-under-or-pushed-into-fetch'}, {'fetch': repr(f)[:200]}))
                elif q.tables[c['table']] != (integ, ftab):
                    out.append(({'cond': 'filter-pushed-into-other-table', 'conjunct': c['kind']}, {'fetch': repr(f)[:200]}))
                continue
            owners = [c for c in q.conj if set(c['consts']) & cs]
            if not owners:
                if cs - {0}:
                    out.append(({'cond': 'unknown-filter-in-fetch'}, {'fetch': repr(f)[:200]}))
                continue
            c = owners[0]
            if c['kind'] not in ('table-cmp', 'table-in', 'nested-and'):
                out.append(({'cond': 'non-table-conjunct-pushed-into-fetch', 'conjunct': c['kind']}, {'fetch': repr(f)[:200]}))
                continue
            # must be that table's fetch and the conjunct unchanged
            al = c.get('table', 't')
            if q.tables[al] != (integ, ftab):
                out.append(({'cond': 'filter-pushed-into-other-table', 'conjunct': c['kind']}, {'fetch': repr(f)[:200]}))
                continue
            if c['kind'] == 'nested-and':
                orig = f't.id > {c["consts"][1]}'
            else:
                orig = c['text']
            want_txt = norm_text(parse_sql('SELECT 1 FROM zz WHERE ' + orig, 'mindsdb').where)
            if norm_text(cj) != want_txt:
                out.append(({'cond': 'pushed-filter-altered', 'conjunct': c['kind']}, {'pushed': norm_text(cj), 'original': want_txt}))
    # (d) the outer filter: consumed equalities are gone, everything else is still there with its context
    outer = [s for s in flat if type(s).__name__ in ('QueryStep', 'SubSelectStep') and getattr(s.query, 'where', None) is not None]
    outer_consts = set()
    for s in outer:
        outer_consts |= consts_in(s.query.where)
    for c in q.conj:
        if 'flex_arg' in c:
            col, val = c['flex_arg']
            if col in got_args and val in outer_consts:
                out.append(({'cond': 'consumed-argument-still-filters', 'conjunct': c['kind']}, {'outer': [s.query.where.to_string()[:200] for s in outer]}))
            elif col not in got_args and val not in outer_consts:
                out.append(({'cond': 'unconsumed-condition-lost', 'conjunct': c['kind']}, {'outer': [s.query.where.to_string()[:200] for s in outer], 'row_dict': repr(ap.row_dict)}))
        elif 'model_arg' in c:
            if c['model_arg'][1] in outer_consts:
                out.append(({'cond': 'consumed-argument-still-filters', 'conjunct': c['kind']}, {'outer': [s.query.where.to_string()[:200] for s in outer]}))
            if c['kind'] == 'nested-and' and c['consts'][1] not in outer_consts:
                out.append(({'cond': 'unconsumed-condition-lost', 'conjunct': 'nested-and'}, {}))
        else:
            missing = [k for k in c['consts'] if k not in outer_consts]
            if 'stay_text' in c and not any(c['stay_text'] in s.query.where.to_string() for s in outer):
                missing = [c['stay_text']]
            if missing:
                out.append(({'cond': 'unconsumed-condition-lost', 'conjunct': c['kind']}, {'outer': [s.query.where.to_string()[:200] for s in outer]}))
            elif c.get('under') == 'not':
                # still under its NOT
                ok = False
                for s in outer:
                    for path, o in monitors.walk(s.query.where):
                        if type(o).__name__ == 'UnaryOperation' and o.op.lower() == 'not' and c['consts'][0] in consts_in(o):
                            ok = True
                if not ok:
                    out.append(({'cond': 'negation-lost', 'conjunct': c['kind']}, {}))
    # (e) USING
    if q.has_using:
        got = {str(k).lower(): v for k, v in (ap.params or {}).items()}
        if core.canon(got) != core.canon(q.using):      # typed comparison: 1 / True / '1' are three different option values
            out.append(({'cond': 'using-options'}, {'expected': repr(q.using), 'got': repr(ap.params)}))
    elif ap.params:
        out.append(({'cond': 'using-options-invented'}, {'got': repr(ap.params)}))
    # (f) columns map
    if q.columns_map is not None:
        cm = ap.columns_map or {}
        got = {k: [str(p).lower() for p in v.parts] for k, v in cm.items()} if all(hasattr(v, 'parts') for v in cm.values()) else cm
        if got != q.columns_map:
            out.append(({'cond': 'columns-map'}, {'expected': q.columns_map, 'got': repr(ap.columns_map)}))
    elif ap.columns_map:
        out.append(({'cond': 'columns-map-invented'}, {'got': repr(ap.columns_map)}))
    return out


def run_shard(ctx):
    from mindsdb_sql import parse_sql
    from mindsdb_sql.planner import plan_query
    from mindsdb_sql.exceptions import PlanningException
    acc = ctx.acc
    n = 2500 if ctx.tier == 'quick' else 120000
    for i in range(n):
        if not ctx.mine(i):
            continue
        if ctx.out_of_time():
            acc.notes.append(f'shard {ctx.shard}: time budget hit at {i}')
            break
        r = core.rng_for(ctx.seed, 'C14', i)
        q = build(r)
        kw, desc = fedgen.catalog(r, form=i % 6)
        acc.ev()
        try:
            plan = plan_query(parse_sql(q.text, 'mindsdb'), **copy.deepcopy(kw))
        except (PlanningException, NotImplementedError) as e:
            acc.count('planner_rejects')
            acc.add('reject_reasons', str(e)[:50])
            continue
        except Exception as e:
            acc.count('internal_error_is_C09')
            continue
        acc.count('plans_checked')
        acc.add('shapes', q.shape)
        if q.t_alias != 't':
            acc.count('table_alias_spelled_like_model')
        for c in q.conj:
            acc.add('conjunct_kinds', c['kind'])
        if q.has_using:
            acc.count('using_checked')
        if q.columns_map is not None:
            acc.count('columns_map_checked')
        if q.conj:
            acc.key(tuple(sorted(c['kind'] for c in q.conj)), q.shape, desc['form'])
        try:
            fails = judge(q, plan)
        except Exception as e:
            acc.notes.append(f'judge error {type(e).__name__}: {e} on {q.text}')
            acc.count('harness_judge_errors')
            continue
        for sig, det in fails:
            sig = dict(sig, shape=q.shape)
            det.update({'text': q.text, 'catalog': desc, 'plan': [repr(s)[:220] for s in plan.steps][:8]})
            acc.fail(sig, det)
        if not fails and len(acc.samples) < 5 and q.conj and i % 31 == 0:
            ap = [s for s in plan.steps if type(s).__name__ == 'ApplyPredictorStep']
            acc.sample({'text': q.text, 'row_dict': repr(ap[0].row_dict) if ap else None, 'params': repr(ap[0].params) if ap else None,
                        'fetches': [repr(s.query.to_string())[:160] for s in plan.steps if type(s).__name__ == 'FetchDataframeStep'], 'placement_ok': True})


def replay(path):
    import json
    w = json.load(open(path))
    for wit in w['witnesses']:
        print(wit['text'])
        for p in wit['plan']:
            print('   ', p)
    return 1
