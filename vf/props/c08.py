"""C08 - executing a federated plan returns what the original query returns.

Workload: predictor-free queries over tables that live in several integrations (all join kinds, IN/NOT IN/EXISTS
subqueries, set operations, CTEs, derived tables, filters, grouping, ordering, LIMIT/OFFSET) x random table contents
(NULLs, duplicates, empty tables) x catalog shapes.  Monitor: boundary of plan_query; the reference plan interpreter
R6 logs every step execution.  Oracle: sqlite3 with every integration ATTACHed executes the original text; the plan,
interpreted step by step with the documented meaning of each step on the same data, must give the same multiset of
rows (same sequence under a total ORDER BY).  Disagreeing queries are reduced clause by clause before classification."""
import copy
import re
import sqlite3

from vf import core, monitors
from vf.gen import fedgen, selgen
from vf.ref.plan_interp import MissingTable, Interp, NotInterpretable, UnknownName

ID = 'C08'
LEVEL = 'translation_validation'
TECHNIQUE = 'reference plan interpreter over sqlite3 (integrations as ATTACHed schemas) vs direct execution of the original query; clause-wise witness reduction'
RULE = ('queries = generated multi-integration SELECTs / set operations / CTEs x 3-6 random database states x catalog forms; a case counts when '
        'the plan has >= 2 fetch steps and was fully interpreted; distinct by (query, catalog form)')
RULE += '; also: column-vs-constant comparisons written either way round, chained set operations (bag semantics in the interpreter), trailing ORDER BY .. LIMIT after a set operation, CTE interaction shapes'
ASSUMPTIONS = ['step semantics as encoded in vf/ref/plan_interp.py from the docstrings of planner/steps.py',
               'sqlite3 3.40 reference engine; every column reference is qualified by a table alias',
               'cases whose plan the interpreter cannot resolve unambiguously are counted as not-interpretable, never judged']
BUDGET = {'quick': (8, 300), 'thorough': (16, 2100)}
INTS = ('int1', 'int2', 'int3')


def floors(tier):
    return {'interpreted': 800, 'sibling_ctes_interpreted': 20, 'len:step_kinds': 5, 'len:join_kinds': 7, 'not_interpretable_pct_ok': 1}


def ceilings(tier):
    # fractions of all evaluations; the unchanged tree stays below about two thirds of each
    return {'skip:not-interpretable': 0.09, 'skip:planner-rejects': 0.06}


def make_db(state):
    db = sqlite3.connect(':memory:')
    for i in INTS:
        db.execute(f"attach ':memory:' as {i}")
    for t, cols in selgen.SCHEMA.items():
        home = fedgen.HOME[t]
        db.execute(f'create table {home}.{t} (' + ', '.join(f'{c} {ty}' for c, ty in cols) + ')')
        if state.get(t):
            db.executemany(f'insert into {home}.{t} values (' + ','.join('?' * len(cols)) + ')', state[t])
    # an integration of the API kind (declared by catalog form 2): it holds a copy of t1
    db.execute("attach ':memory:' as api1")
    cols = selgen.SCHEMA['t1']
    db.execute('create table api1.t1 (' + ', '.join(f'{c} {ty}' for c, ty in cols) + ')')
    if state.get('t1'):
        db.executemany('insert into api1.t1 values (' + ','.join('?' * len(cols)) + ')', state['t1'])
    return db


def norm(rows):
    return sorted(rows, key=repr)


def compare(text, ordered, kw, state, limit_mode=None):
    """-> (outcome, detail).  outcome in agree / differ / skip:<why>"""
    from mindsdb_sql import parse_sql
    from mindsdb_sql.planner import plan_query
    from mindsdb_sql.exceptions import PlanningException
    db = make_db(state)
    try:
        try:
            exp = db.execute(selgen.reference_text(text)).fetchall()
        except sqlite3.Error as e:
            return 'skip:original-not-executable', str(e)
        try:
            plan = plan_query(parse_sql(text, 'mindsdb'), **copy.deepcopy(kw))
        except (PlanningException, NotImplementedError) as e:
            return 'skip:planner-rejects', str(e)[:100]
        except Exception as e:
            return 'skip:internal-error-is-C09', str(e)[:100]
        if len(plan.steps) == 1 and type(plan.steps[0]).__name__ == 'FetchDataframeStep':
            return 'skip:single-fetch', None        # whole-query pushdown is C11's business
        log = []
        try:
            rel = Interp(db, log=log).run(plan)
            got = Interp.rows(Interp(db), rel) if False else db.execute(
                f'select {", ".join("c%d" % i for i in range(len(rel.descs)))} from {rel.name} order by rowid').fetchall() if rel.descs else []
        except MissingTable as e:
            # every table of the statement exists in its integration: a plan that asks an integration for a table it does not have
            # cannot return what the query returns
            msg = str(e)
            kind = 'fetch-of-a-table-the-integration-does-not-have' if msg.startswith('no such table') else 'fetch-of-a-column-the-table-does-not-have'
            m_ = re.match(r'no such column: "?(\w+)"?\.', msg)
            if m_:
                al = m_.group(1)
                sql_ = msg.split('): ', 1)[-1]
                # (aliases are also written without AS: the name qualifies a column somewhere in the statement, and the fetch itself does not define it)
                if re.search(rf'(?i)\b{al}\.', text) and f'AS "{al}"' not in sql_:
                    # executable model of C08-F6: the name is an alias of the ENCLOSING query, left in a sub-query that was planned as a fetch of its own
                    kind = 'fetch-of-a-correlated-subquery-with-its-outer-reference'
            m3_ = re.match(r'no such table: (\w+)\.(\w+)\.(\w+) \(asked of (\w+)\): (WITH )?', msg)
            if m3_ and m3_.group(5) and m3_.group(1) == m3_.group(4) and m3_.group(2) != m3_.group(4):
                # executable model of C08-F9: the fetch still reads a CTE (from a sub-query of one of its clauses), so the WITH clause went along -
                # and the CTE's body reads ANOTHER integration's table, which the asked integration is now expected to have
                kind = 'fetch-carries-a-with-clause-whose-body-reads-another-integration'
            return 'differ', {'kind': kind, 'expected': exp, 'got': msg[:300], 'log': log, 'plan': plan}
        except UnknownName as e:
            # a step names a column that none of its inputs has.  When the name occurs nowhere in the statement either, the planner made it
            # up (a sub-query replaced by a placeholder name that nothing defines): no executor can carry that step out
            if not re.search(rf'(?i)(?<![\w`]){re.escape(str(e.name))}(?![\w`])', text):
                return 'differ', {'kind': 'step-names-something-that-exists-nowhere', 'expected': exp, 'got': str(e)[:200], 'log': log, 'plan': plan}
            return 'skip:not-interpretable', str(e)[:160]
        except NotInterpretable as e:
            return 'skip:not-interpretable', str(e)[:160]
        kinds = sorted({k for k, _, _ in log})
        if limit_mode is not None:
            # LIMIT/OFFSET without a total order: any `limit` rows of the un-limited result are a correct answer
            lim, off, full_text = limit_mode
            full = db.execute(full_text).fetchall()
            want = max(0, min(lim, len(full) - off))
            pool = norm(full)
            ok = len(got) == want
            for row in got:
                if row in pool:
                    pool.remove(row)
                else:
                    ok = False
            if not ok:
                return 'differ', {'kind': 'limit-rows-wrong', 'expected': f'{want} rows out of {full}', 'got': got, 'log': log, 'plan': plan}
            return 'agree', {'kinds': kinds, 'log': log, 'nrows': len(got)}
        if ordered:
            if exp != got:
                return 'differ', {'kind': 'order-differs' if norm(exp) == norm(got) else 'rows-differ', 'expected': exp, 'got': got, 'log': log, 'plan': plan}
        elif norm(exp) != norm(got):
            return 'differ', {'kind': 'rows-differ', 'expected': exp, 'got': got, 'log': log, 'plan': plan}
        return 'agree', {'kinds': kinds, 'log': log, 'nrows': len(exp)}
    finally:
        db.close()


def fetches(steps):
    for st in steps:
        cls = type(st).__name__
        if cls == 'FetchDataframeStep':
            yield st
        elif cls == 'MultipleSteps':
            yield from fetches(st.steps)
        elif cls == 'MapReduceStep':
            yield from fetches(st.step if isinstance(st.step, list) else [st.step])


# ---- witness reduction on the AST ----------------------------------------------------------------------------

def conjuncts(w):
    if type(w).__name__ == 'BinaryOperation' and w.op.lower() == 'and' and not w.parentheses:
        return conjuncts(w.args[0]) + conjuncts(w.args[1])
    return [w]


def rebuild(cs):
    from mindsdb_sql.parser.ast import BinaryOperation
    out = None
    for c in cs:
        out = c if out is None else BinaryOperation('and', args=[out, c])
    return out


def reductions(tree):
    """Yield reduced copies of a Select tree (one clause less each)."""
    if type(tree).__name__ != 'Select':
        return
    for attr in ('limit', 'offset', 'order_by', 'having', 'distinct'):
        v = getattr(tree, attr)
        if v:
            t = copy.deepcopy(tree)
            setattr(t, attr, False if attr == 'distinct' else None)
            if attr == 'order_by':
                t.limit = None
                t.offset = None
            yield 'drop-' + attr, t
    if tree.where is not None:
        cs = conjuncts(tree.where)
        if len(cs) > 1:
            for i in range(len(cs)):
                t = copy.deepcopy(tree)
                t.where = rebuild([copy.deepcopy(c) for j, c in enumerate(cs) if j != i])
                yield 'drop-conjunct', t
        else:
            t = copy.deepcopy(tree)
            t.where = None
            yield 'drop-where', t


def limit_pushed(plan):
    """Did the planner put a LIMIT / OFFSET into a per-table fetch of a multi-fetch plan?"""
    fs = list(fetches(plan.steps))
    return len(fs) >= 2 and any(getattr(f.query, 'limit', None) is not None or getattr(f.query, 'offset', None) is not None for f in fs if f.query is not None)


def cte_clash(tree, default_ns):
    """Does a qualified table of the statement share its name with a CTE of the statement?"""
    names = set()
    for path, o in monitors.walk(tree):
        if type(o).__name__ == 'CommonTableExpression':
            names.add(str(o.name.parts[-1]).lower())
    if not names:
        return '-'
    out = set()
    for path, o in monitors.walk(tree):
        if type(o).__name__ == 'Identifier' and len(o.parts) == 2 and str(o.parts[1]).lower() in names and str(o.parts[0]).lower() in INTS + ('mindsdb',):
            out.add('with-default-namespace-table' if default_ns and str(o.parts[0]).lower() == default_ns.lower() else 'with-other-integration-table')
    return '+'.join(sorted(out)) or '-'


def features(tree):
    f = {'joins': set(), 'clauses': set(), 'where': set(), 'stmt': type(tree).__name__}
    for path, o in monitors.walk(tree):
        cls = type(o).__name__
        if cls == 'Join':
            f['joins'].add(' '.join(o.join_type.upper().split()))
    if type(tree).__name__ == 'Select':
        for a in ('limit', 'offset', 'order_by', 'group_by', 'having', 'distinct', 'cte'):
            if getattr(tree, a, None):
                f['clauses'].add(a)
        if type(tree.from_table).__name__ in ('Select',):
            f['clauses'].add('derived-table')
        if tree.where is not None:
            for path, o in monitors.walk(tree.where):
                cls = type(o).__name__
                if cls == 'BinaryOperation':
                    op = o.op.lower()
                    f['where'].add(op if op in ('and', 'or', 'in', 'not in', 'like', 'not like', 'is', 'is not') else 'cmp')
                elif cls == 'UnaryOperation':
                    f['where'].add(o.op.lower())
                elif cls == 'BetweenOperation':
                    f['where'].add('between')
                elif cls in ('Select', 'Exists', 'NotExists'):
                    f['where'].add('subquery')
    ob = '-'
    if type(tree).__name__ == 'Select' and tree.order_by:
        first = tree.from_table
        while type(first).__name__ == 'Join':
            first = first.left
        fa = str(first.alias.parts[-1]).lower() if getattr(first, 'alias', None) is not None else (str(first.parts[-1]).lower() if type(first).__name__ == 'Identifier' else '?')
        quals = [str(o.field.parts[-2]).lower() if type(o.field).__name__ == 'Identifier' and len(o.field.parts) > 1 else '?' for o in tree.order_by]
        ob = 'first-table-only' if all(x == fa for x in quals) else 'other-tables-too'
    # the one shape in which taking the first table's ORDER BY / LIMIT inside its fetch cannot change the result: every join keeps
    # all rows of the first table (left joins only) and nothing filters afterwards
    # (and no OFFSET: a left join may multiply rows, an offset counted on the table's rows is not one counted on the joined rows)
    shape = 'left-joins-only-no-where-no-offset' if f['joins'] and f['joins'] <= {'LEFT JOIN', 'LEFT OUTER JOIN'} and not f['where'] and 'offset' not in f['clauses'] else 'other'
    return {'stmt': f['stmt'], 'joins': '+'.join(sorted(f['joins'])) or '-', 'clauses': '+'.join(sorted(f['clauses'])) or '-',
            'where': '+'.join(sorted(f['where'])) or '-', 'order_by': ob, 'limit_pushdown_shape': shape}


def reduce_witness(text, ordered, kw, states, explained):
    """Greedy clause removal while some state still disagrees (and the smaller witness is not already explained)."""
    from mindsdb_sql import parse_sql
    try:
        tree = parse_sql(text, 'mindsdb')
    except Exception:
        return text, None

    def disagrees(t):
        try:
            s = t.to_string()
            parse_sql(s, 'mindsdb')
        except Exception:
            return None
        has_total_order = ordered and bool(getattr(t, 'order_by', None))
        for st in states:
            o, d = compare(s, has_total_order, kw, st)
            if o == 'differ':
                return s, d['kind'], st
        return None

    def sig_of(t, kind):
        from mindsdb_sql.planner import plan_query as _pq
        try:
            lp = limit_pushed(_pq(parse_sql(t.to_string(), 'mindsdb'), **copy.deepcopy(kw)))
        except Exception:
            lp = False
        return dict(features(t), kind=kind, limit_pushed_into_fetch=lp, cte_name_clash=cte_clash(t, kw.get('default_namespace')))
    cur = tree
    first = disagrees(cur)
    if first is None:
        return text, None
    cur_text, kind, state = first
    changed = True
    while changed:
        changed = False
        for label, t in reductions(cur):
            r = disagrees(t)
            if r is not None and (explained(sig_of(cur, kind)) or not explained(sig_of(t, r[1]))):
                cur, (cur_text, kind, state) = t, r
                changed = True
                break
    return cur_text, (sig_of(cur, kind), state)


def run_shard(ctx):
    from mindsdb_sql import parse_sql
    acc = ctx.acc
    n = 4000 if ctx.tier == 'quick' else 80000
    nstates = 3 if ctx.tier == 'quick' else 6
    for i in range(n):
        if not ctx.mine(i):
            continue
        if ctx.out_of_time():
            acc.notes.append(f'shard {ctx.shard}: time budget hit at {i}')
            break
        r = core.rng_for(ctx.seed, 'C08', i)
        limit_mode = None
        trailing_model = None
        if i % 5 == 4:
            text, mode, lim, off = fedgen.limit_query(r)
            ordered = mode == 'ordered'
            feats = {'limit-' + mode}
            if mode == 'unordered':
                import re as _re
                limit_mode = (lim, off, _re.sub(r' LIMIT \d+( OFFSET \d+)?$', '', text))
            acc.count('limit_shapes')
        elif i % 5 == 3 and i % 2 == 1:
            text, ordered, feats = fedgen.cte_query(r), False, {'cte-name-shapes'}
            acc.count('cte_shapes')
        elif i % 10 == 7:
            text, ordered, feats = fedgen.star_query(r), False, {'star-over-nested'}
            acc.count('star_shapes')
        elif i % 40 == 20:
            text, ordered, feats = fedgen.sibling_ctes(r), False, {'sibling-ctes-of-one-name'}
            acc.count('sibling_cte_shapes')
        elif i % 20 == 10:
            # (i % 4 == 2: the catalog form that declares the API integration) what such an integration cannot do itself is done on top
            text = fedgen.api_select(r)
            ordered, feats = ' ORDER BY ' in text and 'p.id' in text.split(' ORDER BY ')[1], {'api-integration'}
            acc.count('api_select_shapes')
        elif i % 20 == 15:
            text, ordered, feats = fedgen.derived_join(r), False, {'nested-select-joined-across-integrations'}
            acc.count('derived_join_shapes')
        elif i % 40 == 21:
            text, ordered, feats = fedgen.subquery_in_on(r), False, {'subquery-in-on-clause'}
            acc.count('subquery_in_on_shapes')
        elif i % 20 == 12:
            text, ordered, feats = fedgen.not_over_comparison(r), False, {'not-over-comparison'}
            acc.count('not_over_comparison_shapes')
        elif i % 20 == 1:
            text, ordered, feats = fedgen.join_chain(r), False, {'join-chain-same-named-keys'}
            acc.count('join_chain_shapes')
        elif i % 20 == 11:
            text, feats = fedgen.cte_in_clause_subquery(r), {'cte-read-by-clause-subquery'}
            ordered = ' ORDER BY ' in text
            acc.count('cte_clause_subquery_shapes')
        elif i % 20 == 5:
            text, ordered, feats = fedgen.const_first(r), False, {'value-first-comparison'}
            acc.count('const_first_shapes')
        elif i % 10 == 8:
            text, ordered, feats = fedgen.isnull_outer(r), False, {'isnull-under-outer-join'}
            acc.count('isnull_outer_shapes')
        elif i % 10 == 6:
            text, ops = selgen.setop_chain(r, fedgen.qual_multi)
            ordered, feats = False, {'setop-chain'} | {'setop:' + o for o in ops}
            acc.count('setop_chain_shapes')
        elif i % 10 == 2:
            # set operation across integrations with trailing ORDER BY .. LIMIT (clauses of the whole set operation)
            text, trailing_model, op = selgen.setop_trailing(r, fedgen.qual_multi)
            ordered, feats = True, {'setop-trailing-order-limit', 'setop:' + op}
            acc.count('setop_trailing_shapes')
        else:
            text, ordered, feats = fedgen.fed_query(r, single=False)
        kw, desc = fedgen.catalog(r, form=[0, 1, 2, 4][i % 4])
        if 'sibling-ctes-of-one-name' in feats:
            # a CTE name resolves in the default namespace: the catalog forms that give one
            kw, desc = fedgen.catalog(r, form=[1, 2][(i // 40) % 2])
        states = [selgen.random_state(r, empty_prob=0.08) for _ in range(nstates)]
        bad = None
        for st in states:
            acc.ev()
            o, d = compare(text, ordered, kw, st, limit_mode)
            if o.startswith('skip'):
                acc.count(o)
                if o in ('skip:planner-rejects', 'skip:single-fetch', 'skip:original-not-executable'):
                    break
                continue
            acc.count('interpreted')
            if 'sibling-ctes-of-one-name' in feats:
                acc.count('sibling_ctes_interpreted')
            acc.key(text, desc['form'])
            for f in feats:
                if f.startswith('join:'):
                    acc.add('join_kinds', f[5:])
                acc.add('features', f)
            if o == 'agree':
                for k in d['kinds']:
                    acc.add('step_kinds', k)
                if len(acc.samples) < 4 and i % 9 == 0 and d['nrows'] > 0:
                    acc.sample({'query': text[:300], 'catalog': desc, 'step_log': [list(x) for x in d['log']][:8], 'rows': d['nrows'], 'agree': True})
            else:
                bad = (st, d)
                break
        acc.counters['not_interpretable_pct_ok'] = 1
        if bad and trailing_model is not None:
            st, d = bad
            # executable model of C08-F5: is what the plan returns exactly the other reading (clauses bound to the last SELECT)?
            kind = d['kind']
            db2 = make_db(st)
            try:
                if norm(db2.execute(trailing_model).fetchall()) == norm(d['got']):
                    kind = 'setop-trailing-clause-bound-to-last-select'
            except sqlite3.Error:
                pass
            finally:
                db2.close()
            acc.fail({'kind': kind, 'stmt': 'Union', 'clauses': 'trailing-order-limit', 'limit_pushed_into_fetch': False, 'cte_name_clash': '-'},
                     {'query': text, 'reduced_query': text, 'other_reading': trailing_model, 'catalog': desc, 'state': st, 'expected': repr(d['expected'])[:400],
                      'got': repr(d['got'])[:400], 'plan': [repr(s_)[:200] for s_ in d['plan'].steps][:10]})
        elif bad and limit_mode is not None:
            st, d = bad
            acc.fail(dict(features(parse_sql(text, 'mindsdb')), kind=d['kind'], limit_pushed_into_fetch=limit_pushed(d['plan']), cte_name_clash='-'),
                     {'query': text, 'reduced_query': text, 'catalog': desc, 'state': st, 'expected': d['expected'][:400], 'got': repr(d['got'])[:400],
                      'plan': [repr(s)[:200] for s in d['plan'].steps][:10]})
        elif bad:
            st, d = bad
            red_text, red = reduce_witness(text, ordered, kw, states, ctx.explained)
            if red is None:
                sig, wstate = dict(features(parse_sql(text, 'mindsdb')), kind=d['kind'], limit_pushed_into_fetch=limit_pushed(d['plan']),
                                   cte_name_clash=cte_clash(parse_sql(text, 'mindsdb'), kw.get('default_namespace'))), st
            else:
                sig, wstate = red
            acc.fail(sig, {'query': text, 'reduced_query': red_text, 'catalog': desc, 'state': wstate,
                           'expected': repr(d['expected'])[:400], 'got': repr(d['got'])[:400],
                           'plan': [repr(s)[:200] for s in d['plan'].steps][:10], 'step_log': [list(x) for x in d['log']][:12]})


def coverage_extra(m, tier):
    c = m['counters']
    tot = c.get('interpreted', 0) + c.get('skip:not-interpretable', 0)
    return {'programs': c.get('interpreted', 0), 'disagreements_checked': sum(e['n'] for e in m['failures'].values()),
            'not_interpretable_share': round(c.get('skip:not-interpretable', 0) / tot, 3) if tot else None}


def replay(path):
    import json
    w = json.load(open(path))
    for wit in w['witnesses']:
        print(wit['reduced_query'])
        print('  expected', wit['expected'][:200])
        print('  got     ', wit['got'][:200])
        for s in wit['plan']:
            print('    ', s)
    return 1
