"""C07 - constants render as inert, exact literals in every output path.

Monitor: boundary of ASTNode.to_string / SqlalchemyRender.get_string / get_exec_params on trees built directly with
the value at a given position.  Oracle: the same tree rendered with a benign marker value fixes the text before and
after the literal; in the hostile rendering the text before must be identical, the literal found there must decode -
by an independent codec of the TARGET's lexical rule - to exactly the value, and the text after must be identical
(so the value cannot end its literal early or swallow what follows).  For the sqlite output the sqlite3 engine
itself executes the statement and the value is read back."""
import datetime as dt
import itertools
import math
import re
import sqlite3

from vf import core, monitors
from vf.props.c04 import decode, features, shrink

ID = 'C07'
LEVEL = 'exploration'
TECHNIQUE = 'runtime monitor on to_string/get_string: benign-vs-hostile differential rendering, literal decoded by an independent codec of the target dialect; sqlite3 engine read-back'
RULE = ('values: all strings of length <= 3 (quick) / <= 4 (thorough) over {a, \', ", \\, %, :, ;, -, newline} + injection-shaped strings + '
        'random unicode; ints, floats, bools, None, dates, datetimes; x positions {select list, WHERE, IN list, INSERT values, UPDATE set} x '
        'outputs {to_string, mysql, postgresql, sqlite, mssql, oracle}; non-trivial = value contains a hostile character or is not a str; '
        'distinct by (value, position, output)')
RULE += "; also: long IN lists, equal-valued constants (1 / TRUE / 1.0 / '1') through one renderer object in every rotation, int/float literal syntax"
ASSUMPTIONS = ['target rules: mysql and the library\'s own to_string: backslash escapes + doubled quote; postgresql (standard_conforming_strings), '
               'sqlite, mssql, oracle: doubled quote only',
               'backslash pairs other than \\\\ \\\' \\" have no single denotation in the mindsdb dialect and are not judged for to_string; '
               'for mysql they follow the MySQL manual (\\n \\t \\0 \\b \\r \\Z, \\% \\_ kept, otherwise the character itself)']
BUDGET = {'quick': (8, 240), 'thorough': (16, 1800)}
ALPHA = ['a', "'", '"', '\\', '%', ':', ';', '-', '\n']
CONTROL = ['\r', '\x00', '\x1a', '\t', '\b', '\x7f', 'a\rb', "'\r'", '\r\n', '\\\r']
OUTPUTS = ['to_string', 'mysql', 'postgresql', 'sqlite', 'mssql', 'oracle']
POSITIONS = ['select', 'where', 'in', 'insert', 'update', 'in-long', 'in-mixed', 'neg', 'minus-right', 'div-right',
             # rows of plain python values (Insert(is_plain=True), as an executor builds them): with a column list, and without one
             # through the renderer's default call
             'insert-plain', 'insert-plain-nocols']
INJECTION = ["' OR 1=1 -- ", "\\' OR 1=1 -- ", "'; DROP TABLE t; --", "a' UNION SELECT 'b", "\\", "a\\", "\\\\'", "x'/*", "*/'", "%s", "%(x)s", ":x", ":1",
             "it's", "''", "'\\''", '"', 'a"b', "\\'", "\\\"", "line1\nline2", "tab\there", "nul\x00byte", "é'é", "漢'字", "🙂", "--", "/*", ";", "${x}", "{}", "%%",
             # characters that quote NAMES in some output (back-quote, brackets, double quote, dollar quoting): inside a literal they are data
             "run `make` first", "`", "a`b", "``", "`x`.`y`", "[x]", "]", "$$a$$", "`'`", "it's `q`", "", "`\\", "a`b\\"]
MARK = 'QXQ'


def floors(tier):
    return {'checked': 5000, 'len:outputs': 6, 'len:positions': 5, 'sqlite_engine_readbacks': 300}


def ceilings(tier):
    # fractions of all evaluations; the unchanged tree stays below about two thirds of each
    return {'unsupported_or_ambiguous': 0.08}


# features of a statement that have nothing to do with the constant, but decide which output path the renderer takes for
# the whole statement (its own compilation, or - by default - the tree's own SQL string when it gives up)
COMPANIONS = {
    'window': 'row_number() OVER (ORDER BY a)',
    'window-frame': 'sum(a) OVER (PARTITION BY b ORDER BY c rows BETWEEN unbounded preceding AND current row)',
    'window-partition-only': 'max(a) OVER (PARTITION BY b)',
    'cast-unknown-type': 'CAST(a AS foo)',
    'cast': 'CAST(a AS int)',
    'colon-cast': 'a::text',
    'tuple-operand': '(a, b) = (1, 2)',
    'multi-arg-aggregate': 'count(a, b)',
    'distinct-aggregate': 'count(DISTINCT a)',
    'placeholder': '?',
    'placeholder-aliased': '? AS p',
    'latest': 'LATEST',
    'interval': "INTERVAL '1 day'",
    'case': 'CASE WHEN a = 1 THEN 2 ELSE 3 END',
    'case-operand': 'CASE a WHEN 1 THEN 2 END',
    'exists': 'EXISTS (SELECT 1 FROM t2)',
    'scalar-subselect': '(SELECT max(x) FROM t2)',
    'between': 'a BETWEEN 1 AND 2',
    'function-from-arg': 'extract(year FROM d)',
    'substring-from-for': 'substring(s FROM 1 FOR 2)',
    'star': '*',
    'qualified-star': 't1.*',
    'variable': '@v',
    'not-in-list': 'a NOT IN (1, 2)',
    'is-null': 'a IS NOT NULL',
    'concat-operator': "a || b",
    'unary-minus': '-a',
    'json-like-function': "json_extract(a, '$.k')",
    'nested-function': 'coalesce(nullif(a, 0), abs(b), 1)',
}


def build(pos, value):
    from mindsdb_sql.parser import ast as A
    if '+' in pos:
        from mindsdb_sql import parse_sql
        base, comp = pos.split('+', 1)
        tree = build(base, value)
        tree.targets.append(parse_sql(f'SELECT {COMPANIONS[comp]} FROM t1', 'mindsdb').targets[0])
        return tree
    c = A.Constant(value)
    if pos == 'select':
        c.alias = A.Identifier('c1')
        return A.Select(targets=[c, A.Identifier('zz')], from_table=A.Identifier('t1'))
    if pos == 'where':
        return A.Select(targets=[A.Identifier('a')], from_table=A.Identifier('t1'),
                        where=A.BinaryOperation('and', args=[A.BinaryOperation('=', args=[A.Identifier('b'), c]),
                                                             A.BinaryOperation('=', args=[A.Identifier('zz'), A.Constant(1)])]))
    if pos == 'in':
        return A.Select(targets=[A.Identifier('a')], from_table=A.Identifier('t1'),
                        where=A.BinaryOperation('in', args=[A.Identifier('b'), A.Tuple([c, A.Constant(7)])]))
    if pos == 'in-mixed':
        # the value after constants of other types (a list must not be typed by its first element)
        return A.Select(targets=[A.Identifier('a')], from_table=A.Identifier('t1'),
                        where=A.BinaryOperation('in', args=[A.Identifier('b'), A.Tuple([A.Constant(3), c, A.Constant(4.5)])]))
    if pos == 'in-long':
        # a list long enough to cross any "small list" threshold in the renderer
        # (well over a thousand characters of text, the other items holding blanks of their own)
        items = [A.Constant(1000 + i) for i in range(40)] + [c] + [A.Constant(f'Customer{i:03d} Family{i:03d}') for i in range(60)]
        return A.Select(targets=[A.Identifier('a')], from_table=A.Identifier('t1'),
                        where=A.BinaryOperation('in', args=[A.Identifier('b'), A.Tuple(items)]))
    if pos == 'neg':
        # directly under a unary minus / to the right of a binary minus / of a division: the sign or first character of the literal
        # must not join the operator into another token (`--`, `/*`)
        return A.Select(targets=[A.UnaryOperation('-', args=[c], alias=A.Identifier('c1')), A.Identifier('zz')], from_table=A.Identifier('t1'))
    if pos == 'minus-right':
        return A.Select(targets=[A.BinaryOperation('-', args=[A.Identifier('a'), c], alias=A.Identifier('c1')), A.Identifier('zz')], from_table=A.Identifier('t1'))
    if pos == 'div-right':
        return A.Select(targets=[A.BinaryOperation('/', args=[A.Identifier('a'), c], alias=A.Identifier('c1')), A.Identifier('zz')], from_table=A.Identifier('t1'))
    if pos == 'insert':
        return A.Insert(table=A.Identifier('t1'), columns=[A.Identifier('b'), A.Identifier('zz')], values=[[c, A.Constant(7)]])
    if pos == 'insert-plain':
        return A.Insert(table=A.Identifier('t1'), columns=[A.Identifier('b'), A.Identifier('zz')], values=[[value, 7]], is_plain=True)
    if pos == 'insert-plain-nocols':
        return A.Insert(table=A.Identifier('t1'), values=[[2, value, 7]], is_plain=True)
    if pos == 'update':
        return A.Update(table=A.Identifier('t1'), update_columns={'b': c, 'zz': A.Constant(7)},
                        where=A.BinaryOperation('=', args=[A.Identifier('a'), A.Constant(1)]))
    raise ValueError(pos)


_render = {}


def render(output, tree, default_call=False):
    from mindsdb_sql.render.sqlalchemy_render import SqlalchemyRender
    if output == 'to_string':
        return tree.to_string()
    r = _render.get(output)
    if r is None:
        r = _render[output] = SqlalchemyRender(output)
    if default_call:
        return r.get_string(tree)           # the default call: gives the tree's own string when the renderer gives up
    return r.get_string(tree, with_failback=False)


MYSQL_ESC = {'0': '\x00', "'": "'", '"': '"', 'b': '\b', 'n': '\n', 'r': '\r', 't': '\t', 'Z': '\x1a', '\\': '\\'}


def decode_mysql(text, i):
    q = text[i]
    j, out, n = i + 1, [], len(text)
    while True:
        if j >= n:
            return None, 'unterminated'
        c = text[j]
        if c == '\\':
            if j + 1 >= n:
                return None, 'unterminated'
            nx = text[j + 1]
            if nx in MYSQL_ESC:
                out.append(MYSQL_ESC[nx])
            elif nx in ('%', '_'):
                out.append('\\' + nx)
            else:
                out.append(nx)
            j += 2
            continue
        if c == q:
            if j + 1 < n and text[j + 1] == q:
                out.append(q)
                j += 2
                continue
            return ''.join(out), j + 1
        out.append(c)
        j += 1


def decode_for(output, text, i):
    if output == 'mysql':
        return decode_mysql(text, i)
    if output == 'to_string':
        return decode(text, i, backslash=True)
    return decode(text, i, backslash=False)


def comment_outside_literals(output, text):
    """Does a comment start (`--`, `/*`, for MySQL / the library's own text also `#`) occur outside quoted text?"""
    i, n = 0, len(text)
    bs = output in ('mysql', 'to_string')
    while i < n:
        c = text[i]
        if c in "'\"`":
            j = i + 1
            while j < n:
                if bs and c != '`' and text[j] == '\\' and j + 1 < n:
                    j += 2
                    continue
                if text[j] == c:
                    if j + 1 < n and text[j + 1] == c:
                        j += 2
                        continue
                    break
                j += 1
            i = j + 1
            continue
        if text.startswith('--', i) or text.startswith('/*', i) or (bs and c == '#'):
            return text[max(0, i - 10):i + 12]
        i += 1
    return None


def check_value(output, pos, v, benign_cache):
    """None if ok, else (failure kind, detail)."""
    k, det = _check_value(output, pos, v, benign_cache)
    if k is None and isinstance(det, str) and not isinstance(v, str):
        # the text must still have the statement's structure: no comment start formed by the literal and its neighbours
        at = comment_outside_literals(output, det)
        if at is not None:
            return 'comment-start-formed-outside-literal', {'rendered': det[:300], 'at': at}
    return k, det


def _check_value(output, pos, v, benign_cache):
    """None if ok, else (failure kind, detail)."""
    key = (output, pos, type(v).__name__ if not isinstance(v, str) else 'str')
    if key not in benign_cache:
        marker = MARK if isinstance(v, str) else 424242.5 if isinstance(v, float) else 424242 if isinstance(v, int) and not isinstance(v, bool) else v
        try:
            bt = render(output, build(pos, marker), '+' in pos or pos.endswith('-nocols'))
        except Exception as e:
            benign_cache[key] = ('unsupported', type(e).__name__)
        else:
            lit = "'" + MARK + "'" if isinstance(v, str) else '424242.5' if marker == 424242.5 and isinstance(v, float) else '424242' if marker == 424242 else None
            if lit is None or bt.count(lit) != 1:
                benign_cache[key] = ('no-marker', bt)
            else:
                p = bt.index(lit)
                benign_cache[key] = ('ok', bt[:p], bt[p + len(lit):], bt)
    b = benign_cache[key]
    if b[0] == 'unsupported':
        return 'skip', None
    try:
        ht = render(output, build(pos, v), '+' in pos or pos.endswith('-nocols'))
    except Exception as e:
        from sqlalchemy.exc import SQLAlchemyError
        if isinstance(e, (SQLAlchemyError, NotImplementedError)):
            return 'skip', None
        return 'render-raises:' + type(e).__name__, {'error': str(e)[:200]}
    if b[0] == 'no-marker':
        return check_typed(output, pos, v, ht, None, None)
    pre, suf = b[1], b[2]
    if not ht.startswith(pre):
        return 'text-before-literal-changed', {'rendered': ht[:300], 'benign': b[3][:300]}
    rest = ht[len(pre):]
    if isinstance(v, str):
        if not rest or rest[0] != "'":
            # some dialects prefix N'..' for unicode
            if rest[:2] in ("N'", "n'"):
                rest = rest[1:]
            else:
                return 'literal-does-not-start-with-quote', {'rendered': ht[:300]}
        val, end = decode_for(output, rest, 0)
        # executable models of the listed defects: the literal is exactly the value with only the quote treated
        model = ''
        if output == 'mysql' and rest.startswith("'" + v.replace("'", "''") + "'" + suf):
            model = ' model:quote-doubled-only'
        if rest.startswith("'" + v.replace("'", "\\'") + "'" + suf) :
            # the library's own literal, character for character (to_string itself, or its text handed out by the renderer's fallback)
            model = ' model:quote-backslashed-only'
        if output == 'postgresql' and '`' in v and '\\' in v and rest.startswith(("'" + v.replace("'", "\\'") + "'").replace('`', '') + suf):
            # C07-F4: the PostgreSQL fallback drops the back-quotes outside literals by scanning the library's own text, whose literals are
            # ambiguous once a value holds a backslash (C07-F2): there the scan loses its place and the back-quotes of the value go too
            model = ' model:own-string-literal-without-backticks'
        if val is None and end == 'ambiguous-escape':
            # a backslash pair without a single denotation: both readings (backslash kept / dropped) are admissible
            for amb in ('keep', 'drop'):
                val2, end2 = decode(rest, 0, backslash=True, amb=amb)
                if val2 == v and rest[end2:] == suf:
                    return None, ht
            val, end = decode(rest, 0, backslash=True, amb='keep')
        if val is None:
            return 'literal-' + end + model, {'rendered': ht[:300]}
        if val != v:
            return 'literal-denotes-other-value' + model, {'rendered': ht[:300], 'decoded': val}
        if rest[end:] != suf:
            return 'text-after-literal-changed', {'rendered': ht[:300], 'benign': b[3][:300]}
        return None, ht
    return check_typed(output, pos, v, ht, pre, suf)


def check_typed(output, pos, v, ht, pre, suf):
    if pre is None:
        # bools / None / dates: no numeric marker; locate by rendering two different values is not possible -> look for the expected spelling
        pass
    body = ht
    if pre is not None:
        if not ht.endswith(suf):
            return 'text-after-literal-changed', {'rendered': ht[:300]}
        body = ht[len(pre):len(ht) - len(suf)] if suf else ht[len(pre):]
    txt = body.strip()
    while txt.startswith('(') and txt.endswith(')') and txt.count('(') == 1:
        txt = txt[1:-1].strip()         # a literal in parentheses is the same literal
    if isinstance(v, bool):
        ok = re.search(r'\b(true|false|1|0)\b', ht, re.I) is not None
        want = ('true', '1') if v else ('false', '0')
        ok = any(re.search(r'(?<![\w.])' + w + r'(?![\w.])', ht, re.I) for w in want)
        return (None, ht) if ok else ('bool-literal-missing', {'rendered': ht[:300]})
    if v is None:
        return (None, ht) if re.search(r'\bNULL\b', ht) else ('null-literal-missing', {'rendered': ht[:300]})
    if isinstance(v, (dt.date, dt.datetime)):
        m = re.search(r"'([^']*)'", ht)
        if not m:
            return 'date-not-quoted', {'rendered': ht[:300]}
        if m.group(1) != str(v):
            return 'date-literal-other-value', {'rendered': ht[:300]}
        # a type word in front of the literal (ANSI `DATE '..'` / `TIMESTAMP '..'`) must be the value's type: `DATE '2020-01-02 03:04:05'`
        # is no datetime (refused, or the time of day dropped)
        kw_ = re.search(r"\b(DATE|TIMESTAMP|DATETIME|TIME)\s*$", ht[:m.start()], re.I)
        if kw_:
            is_dt = isinstance(v, dt.datetime)
            if (kw_.group(1).upper() == 'DATE') == is_dt or kw_.group(1).upper() == 'TIME':
                return 'date-literal-typed-as-another-type', {'rendered': ht[:300], 'type_word': kw_.group(1)}
        return None, ht
    if isinstance(v, int):
        try:
            if not re.fullmatch(r'-?\d+', txt):
                return 'number-literal-of-other-type', {'rendered': ht[:300], 'literal': txt[:60]}
            return (None, ht) if int(txt) == v else ('number-denotes-other-value', {'rendered': ht[:300], 'literal': txt})
        except Exception:
            return 'number-not-a-literal', {'rendered': ht[:300], 'literal': txt[:60]}
    if isinstance(v, float):
        try:
            f = float(txt)
            if re.fullmatch(r'-?\d+', txt):
                return 'number-literal-of-other-type', {'rendered': ht[:300], 'literal': txt[:60]}
            ok = (f == v) or (math.isclose(f, v, rel_tol=1e-12))
            return (None, ht) if ok else ('number-denotes-other-value', {'rendered': ht[:300], 'literal': txt})
        except Exception:
            return 'number-not-a-literal', {'rendered': ht[:300], 'literal': txt[:60]}
    return None, ht


def vclass(v):
    if isinstance(v, str):
        return features(v)
    if isinstance(v, float):
        return 'float' + ('-neg' if v < 0 else '') + ('-exp' if 'e' in repr(v) else '')
    if isinstance(v, bool):
        return 'bool'
    if isinstance(v, int):
        return 'int' + ('-neg' if v < 0 else '') + ('-big' if abs(v) > 2 ** 63 else '')
    return type(v).__name__


def sqlite_readback(pos, v, text):
    """Execute the sqlite rendering and read the value back.  Returns None if equal, else description."""
    db = sqlite3.connect(':memory:')
    try:
        db.execute('create table t1 (a, b, zz)')
        db.execute("insert into t1 values (1, 'old', 5)")
        if pos == 'select':
            got = db.execute(text).fetchone()[0]
        elif pos in ('insert', 'insert-plain', 'insert-plain-nocols'):
            db.execute(text)
            got = db.execute('select b from t1 where zz = 7').fetchone()[0]
        elif pos == 'update':
            db.execute(text)
            got = db.execute('select b from t1 where a = 1').fetchone()[0]
        else:
            db.execute(text).fetchall()
            return None
    except sqlite3.Error as e:
        return f'engine-error: {e}'
    finally:
        db.close()
    if isinstance(v, bool):
        return None if got in (int(v), v) else f'read back {got!r}'
    if isinstance(v, (dt.date, dt.datetime)):
        return None if got == str(v) else f'read back {got!r}'
    if isinstance(v, float):
        return None if got == v else f'read back {got!r}'
    return None if got == v else f'read back {got!r}'


def run_shard(ctx):
    acc = ctx.acc
    maxlen = 3 if ctx.tier == 'quick' else 4
    values = ['']
    for n in range(1, maxlen + 1):
        values += [''.join(p) for p in itertools.product(ALPHA, repeat=n)]
    values += INJECTION + CONTROL
    # very long constants (past any length at which a renderer might cut a literal into pieces), quotes at and around round offsets
    values += ['x' * 3999 + "'" + 'y' * 10, 'x' * 4000 + "'", ("a" * 996 + "'") * 9, 'z' * 8191 + "''" + 'z', 'b' * 4001, ('q ' * 2100).strip(), 'c' * 32767 + "'"]
    r = ctx.sub_rng('values')
    pool = ALPHA * 2 + ['b', 'Z', '0', '/', '*', '\t', '漢', '🙂', 'ß', '.', ',', '(', ')', '`', '@', '?', ' ']
    for _ in range(200 if ctx.tier == 'quick' else 3000):
        values.append(''.join(r.choice(pool) for _ in range(r.randint(3, 30 if r.random() < 0.2 else 8))))
    typed = [0, 1, -1, 7, 0.0, -0.0, 2 ** 31, 2 ** 63, -2 ** 63 - 1, 10 ** 30, 0.5, -0.5, 1.0, 1e-7, 1e21, 3.141592653589793, 123456789.123456789,
             True, False, None, 0, 0.0, dt.date(2020, 1, 31), dt.datetime(2020, 1, 31, 23, 59, 58), dt.datetime(1999, 12, 31, 0, 0, 0, 123456)]
    for _ in range(40 if ctx.tier == 'quick' else 600):
        typed.append(r.choice([r.randint(-10 ** 12, 10 ** 12), r.uniform(-1e6, 1e6), r.uniform(-1, 1) * 10 ** r.randint(-12, 18)]))
    benign = {}
    idx = run_sequences(ctx, -1)
    idx = run_companions(ctx, idx, benign)
    for vi, v in enumerate(values + typed):
        for pos in POSITIONS:
            for output in OUTPUTS:
                idx += 1
                if not ctx.mine(idx):
                    continue
                if ctx.out_of_time():
                    acc.notes.append(f'shard {ctx.shard}: time budget hit at {idx}')
                    return
                # long random strings: one position/output each
                if isinstance(v, str) and len(v) > 3 and v not in INJECTION and (vi + POSITIONS.index(pos) + OUTPUTS.index(output)) % 5:
                    continue
                if pos.endswith('-nocols') and isinstance(v, str) and len(v) > 2 and v not in INJECTION and v not in CONTROL:
                    continue    # this position takes the fallback door (C07-F3): every failing value is shrunk in full, keep the list short
                acc.ev()
                if pos in ('insert', 'insert-plain') and output not in ('to_string',) and (vi + idx) % 3 == 0:
                    # parameterised path: the value must travel as a parameter, untouched, and not appear in the text
                    from mindsdb_sql.render.sqlalchemy_render import SqlalchemyRender
                    try:
                        sql_p, params = SqlalchemyRender(output).get_exec_params(build(pos, v), with_failback=False, with_params=True)
                        acc.count('exec_params_checked')
                        if params is not None:
                            flat = [x.value if hasattr(x, 'value') else x for row in params for x in (row if isinstance(row, (list, tuple)) else [row])]
                            if not any(x is v or (x == v and type(x) is type(v)) for x in flat):
                                acc.fail({'output': output, 'failure': 'exec-param-value-changed', 'value_class': vclass(v)},
                                         {'value': repr(v), 'params': repr(params)[:200], 'sql': sql_p[:200]})
                    except Exception as e:
                        pass
                k, det = check_value(output, pos, v, benign)
                if k == 'skip':
                    acc.count('unsupported_or_ambiguous')
                    continue
                acc.count('checked')
                acc.add('outputs', output)
                acc.add('positions', pos)
                if not isinstance(v, str) or any(c in v for c in "'\"\\%:;-\n"):
                    acc.key(repr(v), pos, output)
                if k is None:
                    engine_ok = not (isinstance(v, str) and '\x00' in v) and not (isinstance(v, int) and not isinstance(v, bool) and abs(v) >= 2 ** 63)
                    if output == 'sqlite' and engine_ok:      # NUL cannot travel in SQL text; SQLite integers are 64-bit
                        rb = sqlite_readback(pos, v, det)
                        acc.count('sqlite_engine_readbacks')
                        if rb is not None:
                            acc.fail({'output': 'sqlite', 'failure': 'engine-readback-differs', 'value_class': vclass(v), 'position': pos},
                                     {'value': repr(v), 'rendered': det[:300], 'readback': rb})
                    if len(acc.samples) < 5 and isinstance(v, str) and "'" in v and idx % 7 == 0:
                        acc.sample({'output': output, 'position': pos, 'value': v, 'rendered': det[:200], 'literal_decodes_to_value': True})
                    continue
                extra = {}
                if pos.endswith('-nocols') and output != 'to_string':
                    # which door the text came out of: the renderer's own compilation, or the tree's own string (fallback)
                    try:
                        tr = build(pos, v)
                        extra['path'] = 'own-string-fallback' if render(output, tr, True).replace('`', '') == tr.to_string().replace('`', '') else 'compiled'
                    except Exception:
                        extra['path'] = 'unknown'
                    extra['companion'] = 'insert-without-column-list'
                w = v
                if isinstance(v, str):
                    def fails(x, _o=output, _p=pos):
                        return check_value(_o, _p, x, benign)[0]

                    def sig_of(x, _o=output, _k=k, _e=extra):
                        return {'output': _o, 'failure': _k, 'value_class': features(x), **_e}
                    w = shrink(v, fails, sig_of, ctx.explained)
                sig = {'output': output, 'failure': k, 'value_class': vclass(w), **extra}
                d2 = check_value(output, pos, w, benign)[1] if isinstance(v, str) else det
                acc.fail(sig, {'value': repr(v), 'shrunk': repr(w), 'position': pos, **(d2 if isinstance(d2, dict) else {})})


def run_companions(ctx, idx, benign):
    """The constant inside statements with one further feature each, through the renderer's DEFAULT call."""
    acc = ctx.acc
    vals = INJECTION + CONTROL + ['plain', "it's", 'a\\b', "\\'", "''", 'x\\', '%s', ':p', 'a;b', '--', '/*', "\n'", 7, 2.5, True, None]
    for comp in COMPANIONS:
        for base in ('select', 'where'):
            pos = base + '+' + comp
            for output in OUTPUTS[1:]:
                paths = {}
                for v in vals:
                    idx += 1
                    if not ctx.mine(idx):
                        continue
                    if ctx.out_of_time():
                        return idx
                    acc.ev()
                    try:
                        k, det = check_value(output, pos, v, benign)
                    except Exception as e:
                        acc.fail({'output': output, 'failure': 'default-call-raises:' + type(e).__name__, 'companion': comp}, {'value': repr(v), 'error': str(e)[:200]})
                        continue
                    if k == 'skip':
                        acc.count('unsupported_or_ambiguous')
                        continue
                    acc.count('checked_with_companion')
                    acc.add('companions', comp)
                    b = benign.get((output, pos, type(v).__name__ if not isinstance(v, str) else 'str'))
                    try:
                        path = 'own-string-fallback' if b and b[0] in ('ok', 'no-marker') and b[-1] == build(pos, MARK if isinstance(v, str) else 424242 if isinstance(v, (int, float)) and not isinstance(v, bool) else v).to_string() else 'compiled'
                    except Exception:
                        path = 'unknown'
                    acc.add('paths', path)
                    if path == 'own-string-fallback':
                        acc.add('companions_taking_fallback', comp)
                    if k is not None:
                        acc.fail({'output': output, 'failure': k, 'value_class': vclass(v), 'companion': comp, 'path': path},
                                 {'value': repr(v), 'position': pos, **(det if isinstance(det, dict) else {})})
    return idx


EQUAL_VALUED = [1, True, 1.0, 0, False, 0.0, -1, -1.0, 7, 7.0, 2 ** 31, float(2 ** 31), '1', '1.0', 'True', '', None]


def run_sequences(ctx, idx):
    """Constants that compare equal in Python but are different SQL values (1 / TRUE / 1.0 / '1'), rendered one after
    the other by ONE renderer object, every rotation of the list: each text must be what a fresh renderer gives."""
    from mindsdb_sql.render.sqlalchemy_render import SqlalchemyRender
    from mindsdb_sql.parser import ast as A
    acc = ctx.acc
    for output in OUTPUTS[1:]:
        for rot in range(len(EQUAL_VALUED)):
            for shape in ('one-per-statement', 'all-in-one-statement'):
                idx += 1
                if not ctx.mine(idx):
                    continue
                seq = EQUAL_VALUED[rot:] + EQUAL_VALUED[:rot]
                acc.ev()
                acc.count('equal_valued_sequences')
                acc.key('equal-valued', output, rot, shape)
                try:
                    if shape == 'one-per-statement':
                        long_lived = SqlalchemyRender(output)
                        got = [long_lived.get_string(build('select', v), with_failback=False) for v in seq]
                        want = [SqlalchemyRender(output).get_string(build('select', v), with_failback=False) for v in seq]
                    else:
                        tree = A.Select(targets=[A.Constant(v, alias=A.Identifier(f'c{i}')) for i, v in enumerate(seq)])
                        got = [SqlalchemyRender(output).get_string(tree, with_failback=False)]
                        singles = []
                        for i, v in enumerate(seq):
                            t1 = SqlalchemyRender(output).get_string(A.Select(targets=[A.Constant(v, alias=A.Identifier(f'c{i}'))]), with_failback=False)
                            singles.append(re.sub(r'\s+FROM DUAL$', '', re.sub(r'^SELECT\s+', '', t1.strip())))
                        want = ['SELECT ' + ', '.join(singles) + (' FROM DUAL' if output == 'oracle' else '')]
                except Exception as e:
                    acc.count('equal_valued_render_raised:' + type(e).__name__)
                    continue
                norm = lambda t: ' '.join(t.split())
                for k, (g, w) in enumerate(zip(got, want)):
                    if norm(g) != norm(w):
                        acc.fail({'output': output, 'failure': 'literal-depends-on-earlier-equal-valued-constant', 'value_class': shape},
                                 {'sequence': repr(seq[:k + 1] if shape == 'one-per-statement' else seq), 'rendered': g[:300], 'fresh_renderer_gives': w[:300]})
                        break
    # the tree's own printers: each statement class writes its cells itself - the same constants side by side in one SELECT list, one
    # INSERT row, several INSERT rows, one IN list, one UPDATE; every cell must be the text the constant prints alone
    for rot in range(len(EQUAL_VALUED)):
        idx += 1
        if not ctx.mine(idx):
            continue
        seq = EQUAL_VALUED[rot:] + EQUAL_VALUED[:rot]
        alone = [A.Constant(v).to_string() for v in seq]
        shapes = {
            'select-list': (A.Select(targets=[A.Constant(v) for v in seq]), 'SELECT ' + ', '.join(alone)),
            'insert-row': (A.Insert(table=A.Identifier('t'), columns=[A.Identifier(f'c{i}') for i in range(len(seq))], values=[[A.Constant(v) for v in seq]]), None),
            'insert-rows': (A.Insert(table=A.Identifier('t'), columns=[A.Identifier('c')], values=[[A.Constant(v)] for v in seq]), None),
            'in-list': (A.Select(targets=[A.Star()], from_table=A.Identifier('t'), where=A.BinaryOperation('in', args=[A.Identifier('a'), A.Tuple([A.Constant(v) for v in seq])])), None),
            'update': (A.Update(table=A.Identifier('t'), update_columns={f'c{i}': A.Constant(v) for i, v in enumerate(seq)}), None),
        }
        for shape, (tree, _) in shapes.items():
            acc.ev()
            acc.count('equal_valued_sequences')
            acc.key('equal-valued', 'to_string', rot, shape)
            try:
                text = tree.to_string()
            except Exception as e:
                acc.count('equal_valued_render_raised:' + type(e).__name__)
                continue
            # the cells in order: every alone-text must occur, in sequence, each after the previous one
            pos, ok = 0, True
            for a_ in alone:
                j = text.find(a_, pos)
                if j < 0:
                    ok = False
                    break
                pos = j + len(a_)
            if not ok:
                acc.fail({'output': 'to_string', 'failure': 'literal-depends-on-earlier-equal-valued-constant', 'value_class': shape},
                         {'sequence': repr(seq), 'rendered': text[:400], 'cells_alone': alone})
    return idx


def replay(path):
    import json
    w = json.load(open(path))
    print(json.dumps(w, indent=1)[:3000])
    return 1
