"""Workload shared by the parser-level properties (C02, C05, C19, ...): a deterministic stream of
(class label, dialect, text) cases.  Case i of a class is a pure function of (seed, class, i), so
shards can partition by index."""
import random

from vf import core
from vf.gen import sqlgen
from vf import monitors

DIALECTS = ('mindsdb', 'mysql', 'sqlite')

UNICODE_NOISE = ['', ' ', ';', ';;; ', '\n', '\t\n', 'é', '漢字', '​', '\x00', 'select \x00', '🙂 select 1', "seĺect",
                 '﻿select 1', '\\', "'", '"', '`', "'unterminated", '"unterminated', '`unterminated', '/* open', '-- only comment',
                 '/* c */', '$', '#', '~', '^', '&', '|', '!', '@', '@@', ':', '::', '->', '->>', '{', '}', '[', ']', '?', '%', '0x1F',
                 '1e5', '1.', '.5', '1..2', 'a..b', 'a.', '.a', '`a`.`b`.*', 'select ٣', 'ＳＥＬＥＣＴ 1']


def base_statements(seed, n_templates):
    """Deterministic list of (label, text) base statements: corpus + templates."""
    out = [('corpus', s) for s in sqlgen.corpus()]
    rng = core.rng_for(seed, 'parsework', 'templates')
    for i in range(n_templates):
        k, s = sqlgen.mindsdb_statement(rng)
        out.append(('tmpl:' + k, s))
    return out


def gram_statements(seed, n, starts=('select', 'select', 'union', 'insert', 'update', 'delete', 'create_table'), dialect='mindsdb'):
    """Deterministic list of ('gram:<start>', text): sentences derived from the grammar of the tree under test, starting at a
    statement non-terminal, kept when the parser accepts them (shapes no template author thought of)."""
    from vf.gen.gramgen import GramGen
    from mindsdb_sql import parse_sql
    g = GramGen(monitors.parser_classes()[dialect], monitors.lexer_classes()[dialect])
    out = []
    for j in range(n):
        r = core.rng_for(seed, 'parsework', 'gram-stmt', j)
        st = starts[j % len(starts)]
        try:
            t = g.sentence(r, max_depth=r.choice([7, 9, 11]), start=st)
            parse_sql(t, dialect)
        except Exception:
            continue
        out.append(('gram:' + st, t))
    return out


class Workload:
    def __init__(self, ctx, n_templates, n_mut, n_soup, n_noise=True, dialects=DIALECTS, max_nest=40, n_lexeme=0, n_gram=0, lexeme_extra=False, n_runs=0, short_names=False):
        self.lexeme_extra = lexeme_extra
        self.n_runs = n_runs
        self.n_lexeme = n_lexeme
        self.short_names = short_names
        self.n_gram = n_gram
        self.ctx = ctx
        self.n_templates = n_templates
        self.n_mut = n_mut
        self.n_soup = n_soup
        self.n_noise = n_noise
        self.dialects = dialects
        self.max_nest = max_nest
        self._vocab = {}

    def vocab(self, dialect):
        if dialect not in self._vocab:
            self._vocab[dialect] = sqlgen.keyword_vocab(monitors.lexer_classes()[dialect])
        return self._vocab[dialect]

    def cases(self):
        """Yield (index, label, dialect, text).  Only indices owned by this shard are produced."""
        ctx = self.ctx
        idx = 0
        base = base_statements(ctx.seed, self.n_templates)
        # class 1+2: corpus and templates, each in all dialects
        for bi, (label, s) in enumerate(base):
            for d in self.dialects:
                if ctx.mine(idx):
                    yield idx, label, d, s
                idx += 1
            # the same statement in lower case / with the case of every letter swapped (keywords are case-insensitive)
            if bi % 6 == 0 and label != 'corpus':
                for variant, t in (('lower', s.lower()), ('swapcase', s.swapcase())):
                    if ctx.mine(idx):
                        yield idx, label + '~' + variant, self.dialects[0], t
                    idx += 1
        # class 3: token-level mutations of base statements
        for j in range(self.n_mut):
            if ctx.mine(idx):
                r = core.rng_for(ctx.seed, 'parsework', 'mut', j)
                label, s = base[r.randrange(len(base))]
                d = self.dialects[0] if r.random() < 0.6 else r.choice(self.dialects)
                try:
                    toks = monitors.lex_all(s, d)
                except Exception:
                    toks = []
                ml, t = sqlgen.mutate(s, toks, r, self.vocab(d))
                if r.random() < 0.15:   # second mutation
                    try:
                        toks2 = monitors.lex_all(t, d)
                    except Exception:
                        toks2 = []
                    ml2, t = sqlgen.mutate(t, toks2, r, self.vocab(d))
                    ml += '+' + ml2
                yield idx, 'mut:' + ml, d, t
            idx += 1
        # class 4: token soups
        for j in range(self.n_soup):
            if ctx.mine(idx):
                r = core.rng_for(ctx.seed, 'parsework', 'soup', j)
                d = r.choice(self.dialects)
                v = self.vocab(d)
                t = ' '.join(r.choice(v) for _ in range(r.randint(1, 12)))
                yield idx, 'soup', d, t
            idx += 1
        # class 5: unicode / degenerate inputs, nesting
        if self.n_noise:
            extra = list(UNICODE_NOISE)
            r = core.rng_for(ctx.seed, 'parsework', 'noise')
            for _ in range(40):
                extra.append(''.join(chr(r.choice([r.randint(32, 126), r.randint(160, 0x2fff), r.randint(0x1f300, 0x1f5ff)]))
                                     for _ in range(r.randint(1, 30))))
            for n in (1, 2, 5, 10, 20, self.max_nest):
                extra.append('select ' + '(' * n + '1' + ')' * n)
                extra.append('select * from ' + '(select * from ' * n + 't' + ')' * n)
                extra.append('select ' + ' + '.join(['a'] * (n * 5)))
                extra.append('select ' + 'not ' * n + 'a')
                extra.append('select ' + '-' * n + 'a')
                extra.append('select * from t where ' + ' and '.join(f'(a = {i} or b = {i})' for i in range(n)))
            for t in extra:
                for d in self.dialects:
                    if ctx.mine(idx):
                        yield idx, 'noise', d, t
                    idx += 1

        # class 6: hostile identifier lexemes x positions (sampled deterministically)
        if self.n_lexeme:
            from mindsdb_sql.parser.ast.select.identifier import RESERVED_KEYWORDS
            ids = sqlgen.hostile_identifiers(list(monitors.lexer_classes().values()), sorted(RESERVED_KEYWORDS))
            r = core.rng_for(ctx.seed, 'parsework', 'lexeme')
            positions = sqlgen.IDENT_POSITIONS + (sqlgen.IDENT_POSITIONS_EXTRA if self.lexeme_extra else [])
            npos = len(positions)
            for j in range(self.n_lexeme):
                x = ids[j % len(ids)] if j < len(ids) * 2 else r.choice(ids)
                pos = positions[(j // len(ids) + j) % npos] if j < len(ids) * 2 else r.choice(positions)
                d = self.dialects[0] if j % 4 else self.dialects[1 + (j // 4) % 2]
                if ctx.mine(idx):
                    t = pos.format(x=x)
                    if self.lexeme_extra and j % 5 == 3 and d == self.dialects[0] and '"' not in x:
                        # the mindsdb dialect also reads double-quoted names
                        yield idx, 'lexeme-dq', d, t.replace('`', '"')
                    else:
                        yield idx, 'lexeme', d, t
                idx += 1

        # class 6a: every name of one or two characters over the hostile alphabet (digits, $, _, blank, dash, dot, non-ASCII) in every
        # position and every dialect - a full grid, so that no (name, position, dialect) coincidence is left to the sampling above
        if self.n_lexeme and self.short_names:
            alpha = ['a', 'B', '1', '0', '$', '_', ' ', '-', '.', 'é']
            for x in alpha + [a + b for a in alpha for b in alpha]:
                for pos in sqlgen.IDENT_POSITIONS:
                    for d in self.dialects:
                        if ctx.mine(idx):
                            yield idx, 'lexeme-grid', d, pos.format(x=x)
                        idx += 1

        # class 6b: names made of separators only, in every position, in both quotings
        if self.n_lexeme and self.lexeme_extra:
            for x in ['.', '..', '...', '. .', ' ', '  ', '.a', 'a.', '..a', 'a..b', '-', '$', '1', '0.5', '1e5', '*']:
                for pos in positions:
                    for q in ('`', '"'):
                        if ctx.mine(idx):
                            yield idx, 'lexeme-sep', self.dialects[0], pos.format(x=x).replace('`', q)
                        idx += 1

        # class 6c: multi-part names written WITHOUT quotes whose parts are not plain words (stars, numbers, quoted parts, blanks around
        # the dot), in every position that takes a name
        if self.n_lexeme and self.lexeme_extra:
            forms = ['t.*', 'a.b.*', '*', 't.1', 'a.1.b', '1.a', 't.`x`', 't."x"', 'a.b.c.d', 'a . b', 't .*', '`a`.*', 't.*.c', '*.a', 't.007', 'a.0x1',
                     '@v.a', 't.?', 'a.b.c.d.e.f', 't.*.*', 'a..b', '.a', 'a.', 't.1e5', 't.-1', 'a.`b`.*', 'db.t.*', 'x.y.1']
            for x in forms:
                for pos in positions:
                    for d in self.dialects:
                        if ctx.mine(idx):
                            yield idx, 'name-form', d, pos.replace('`{x}`', x)
                        idx += 1

        # class 7: grammar-derived sentences of the dialect under test (+ one token-level mutation of some of them)
        if self.n_gram:
            from vf.gen.gramgen import GramGen
            gens = {}
            for j in range(self.n_gram):
                if ctx.mine(idx):
                    r = core.rng_for(ctx.seed, 'parsework', 'gram', j)
                    d = self.dialects[0] if j % 2 == 0 else self.dialects[1 + (j // 2) % 2]
                    if d not in gens:
                        gens[d] = GramGen(monitors.parser_classes()[d], monitors.lexer_classes()[d])
                    t = gens[d].sentence(r, max_depth=r.choice([6, 8, 10, 12]))
                    label = 'gram'
                    if r.random() < 0.25:
                        try:
                            toks = monitors.lex_all(t, d)
                        except Exception:
                            toks = []
                        ml, t = sqlgen.mutate(t, toks, r, self.vocab(d))
                        label = 'gram+mut:' + ml
                    yield idx, label, d, t
                idx += 1

        # class 8: long runs of one repeated unit (what a pattern with nested repetition, or a loop that re-scans its input,
        # is sensitive to), at the start, on a line of their own, inline, inside a literal / comment, and at the end
        if self.n_runs:
            units = ['-', '--', '-- ', '/*', '*/', '*', '/', "'", '"', '`', ';', ' ', '\n', '\t', '\r\n', '(', ')', '--x\n', '; ', '\\', '@', '#', 'a', '1', '.',
                     'e', ',', '- ', "''", '""', '/**/', '=', '%', '1e', '0.', ' ;', '\\\'', 'é', '\u00a0', '_', '$', ':', '?', '!', '<', '>', '|', '&', '~', '^', '[', ']', '{', '}',
                     '\\\\', '\\a', '\\"', "\\''", '\\\n']
            stmts = ['select 1', 'select a from t where b = 1', "select 'x' from t", 'show tables', 'create view v as (select 1)', 'insert into t (a) values (1)']
            places = ['prefix', 'suffix', 'own-line', 'inline', 'in-string', 'in-dq', 'in-bq', 'in-comment', 'in-line-comment', 'tail-after-semicolon',
                      # a quoted lexeme / comment that is opened and never closed: the lexer must refuse it without trying every way of
                      # reading the run (overlapping alternatives inside a repetition)
                      'open-string', 'open-dq', 'open-bq', 'open-comment', 'open-var', 'open-string-mid']
            k = 0
            for j in range(self.n_runs):
                r = core.rng_for(ctx.seed, 'parsework', 'runs', j)
                u = units[j % len(units)]
                place = places[(j // len(units)) % len(places)]
                n = r.choice([30, 36, 40, 64, 120, 300]) if (place not in ('in-string', 'in-dq', 'in-bq', 'in-comment', 'in-line-comment') and not place.startswith('open-')) or j % 3 else r.choice([1000, 3000])
                st, st2 = r.choice(stmts), r.choice(stmts)
                run = u * n
                t = {'prefix': run + ' ' + st, 'suffix': st + ' ' + run, 'own-line': st + '\n' + run + '\n' + st2, 'inline': st + ' ' + run + ' ' + st2[7:],
                     'in-string': "select '" + run + "' from t", 'in-dq': 'select "' + run + '" from t', 'in-bq': 'select `' + run + '` from t',
                     'in-comment': 'select /*' + run + '*/ 1', 'in-line-comment': 'select 1 --' + run + '\nfrom t', 'tail-after-semicolon': st + ';' + run,
                     'open-string': "select '" + run, 'open-dq': 'select "' + run, 'open-bq': 'select `' + run, 'open-comment': 'select 1 /*' + run,
                     'open-var': "select @'" + run, 'open-string-mid': "select a from t where b = 'x" + run + ' and c = 1'}[place]
                d = self.dialects[j % len(self.dialects)]
                if ctx.mine(idx):
                    yield idx, 'runs:' + place, d, t
                idx += 1
            # class 9: numbers of very many digits (more than the interpreter converts between text and int: 4300 by default), as
            # integers, before / after a decimal point, with a sign, in every position that takes a number
            forms = [lambda x: x, lambda x: x + '.5', lambda x: '0.' + x, lambda x: '-' + x, lambda x: x + '.' + x, lambda x: '1.' + x + 'e5', lambda x: 'a' + x, lambda x: x + 'a']
            slots = ['select %s', 'select a from t where b = %s', 'select a from t limit %s', 'select a from t limit 1 offset %s', 'insert into t (a) values (%s)',
                     'select a from t where b in (1, %s)', 'update t set a = %s', 'select f(%s)', 'select a from t where b between %s and 2', 'select cast(a as decimal(%s))',
                     'select * from m.%s', 'set x = %s', 'select -%s']
            lens = [4299, 4300, 4301, 5000, 8600, 20000]
            j = 0
            for ln in lens:
                for fi, form in enumerate(forms):
                    for si, slot in enumerate(slots):
                        r = core.rng_for(ctx.seed, 'parsework', 'digits', j)
                        digit = r.choice('123456789')
                        d = self.dialects[j % len(self.dialects)]
                        j += 1
                        if ctx.mine(idx):
                            yield idx, 'runs:digits', d, slot % form(digit * ln)
                        idx += 1
