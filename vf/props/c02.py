"""C02 - parse_sql terminates on every input with a tree or a parsing error, never a crash.

Monitor: API-boundary post-conditions on parse_sql (returns an ASTNode, or raises only
ParsingException / LexError), exception classifier (innermost frame in the tree under test,
grammar production being reduced), logical step counter (sys.monitoring PY_START) for 'terminates'."""
import re

from vf import core, monitors
from vf.props._parsework import Workload, DIALECTS

ID = 'C02'
LEVEL = 'exploration'
TECHNIQUE = 'runtime monitor: post-condition contract on parse_sql + exception classifier + logical step budget (sys.monitoring)'
RULE = ('cases = corpus + templates (all statement kinds) x 3 dialects, single/double token mutations, truncations, '
        'garbage splices, token soups, unicode noise, nesting up to depth 40; non-trivial = input reached a grammar '
        'action or the error reporter; distinct by (dialect, token-type sequence)')
RULE += '; long runs of one repeated unit (30-3000 repetitions) at the start, inline, on a line of their own, inside literals / comments and at the end; also: lexer-level mutations (glued tokens, re-layout, comments, number edges, long error tails, comment sandwiches), grammar-derived sentences, case variants'
ASSUMPTIONS = ['"reasonably sized" = at most 400 tokens and nesting depth <= 40',
               'terminates = stays under a logical budget of 2e5 + 5e3*len(tokens) Python calls inside the library and under 20 s of CPU time (ITIMER_VIRTUAL) per call']
BUDGET = {'quick': (16, 240), 'thorough': (16, 1800)}
SIZES = {'quick': dict(n_templates=4000, n_mut=60000, n_soup=8000, n_gram=20000, n_lexeme=12000, lexeme_extra=True, n_runs=3000),
         'thorough': dict(n_templates=12000, n_mut=400000, n_soup=60000, n_gram=150000, n_lexeme=80000, lexeme_extra=True, n_runs=20000)}


def floors(tier):
    return {'accepted': 1500, 'rejected_parsing_exception': 1500, 'rejected_lex_error': 20,
            'error_reporter_runs': 1000, 'suggestion_reparses': 200, 'len:dialects': 3}


def allowed_exceptions():
    from mindsdb_sql.exceptions import ParsingException
    from sly.lex import LexError
    return (ParsingException, LexError)


def signature(e, parser_prod, in_reporter, dialect):
    c = monitors.classify_exception(e)
    return {'kind': 'internal-error', 'etype': c['etype'], 'func': c['func'], 'file': c['file'],
            'where': 'error-reporter' if in_reporter else 'grammar-action' if parser_prod else 'other',
            'msgclass': c['msgclass'][:40]}


CPU_LIMIT_S = 20.0      # CPU seconds for one parse_sql call (inputs here parse in milliseconds)


def run_one(dialect, text, steps, dog=None):
    """Execute parse_sql under the monitors.  Returns (outcome, sig, detail, rec)."""
    from mindsdb_sql import parse_sql
    from mindsdb_sql.parser.ast.base import ASTNode
    import traceback
    ntok_guess = len(text) // 2 + 10
    budget = 200000 + 5000 * min(ntok_guess, 2000)
    with monitors.monitored_parse() as rec:
        steps.start(budget)
        n = -1
        try:
            try:
                if dog is not None:
                    dog.start(CPU_LIMIT_S)
                res = parse_sql(text, dialect)
                exc = None
            finally:
                used = CPU_LIMIT_S - dog.stop() if dog is not None else 0.0
                n = steps.stop()
        except monitors.CpuBudgetExceeded:
            return 'violation', {'kind': 'no-result-within-cpu-limit', 'limit_s': CPU_LIMIT_S, 'size': 'under-4k' if len(text) < 4096 else 'over-4k'}, {'steps': n, 'chars': len(text)}, rec, n
        except monitors.StepBudgetExceeded as e:
            return 'violation', {'kind': 'step-budget-exceeded', 'dialect': dialect}, {'steps': n, 'budget': budget}, rec, n
        except allowed_exceptions() as e:
            # building the message must have succeeded: it is the exception's text
            try:
                str(e)
            except Exception as e2:
                return 'violation', {'kind': 'message-unprintable', 'etype': type(e2).__name__}, {}, rec, n
            return ('lexerror' if type(e).__name__ == 'LexError' else 'rejected'), None, None, rec, n
        except RecursionError as e:
            tb = traceback.extract_tb(e.__traceback__)
            inner = [f for f in tb if f.filename.startswith(core.REPO)]
            return 'violation', {'kind': 'internal-error', 'etype': 'RecursionError',
                                 'func': inner[-1].name if inner else '?', 'where': 'other'}, {'steps': n}, rec, n
        except Exception as e:
            tb = traceback.extract_tb(e.__traceback__)
            in_reporter = any(f.name in ('process', 'make_suggestion', 'error_location', 'query_is_valid') and
                              f.filename.endswith('mindsdb_sql/__init__.py') for f in tb)
            in_action = any(f.filename.endswith('parser.py') and 'dialects' in f.filename or f.filename.endswith('parser/parser.py')
                            for f in tb)
            sig = signature(e, in_action, in_reporter, dialect)
            acts = [f.name for f in tb if f.filename.endswith('parser.py')]
            sig['action'] = acts[-1] if acts else '-'
            del sig['msgclass']
            return 'violation', sig, {'exception': f'{type(e).__name__}: {e}'[:300]}, rec, n
    if not isinstance(res, ASTNode):
        return 'violation', {'kind': 'non-tree-result', 'rtype': type(res).__name__, 'dialect': dialect}, {'result': repr(res)[:200]}, rec, n
    return 'accepted', None, None, rec, n


def run_shard(ctx):
    monitors.install_parser_monitors()
    steps = monitors.StepCounter()
    dog = monitors.CpuWatchdog()
    acc = ctx.acc
    wl = Workload(ctx, **SIZES[ctx.tier])
    for idx, label, dialect, text in wl.cases():
        if ctx.out_of_time():
            acc.notes.append(f'shard {ctx.shard}: time budget hit at case {idx}')
            break
        outcome, sig, detail, rec, n = run_one(dialect, text, steps, dog)
        acc.ev()
        acc.count('class:' + label.split(':')[0])
        acc.add('dialects', dialect)
        acc.max('logical_steps', n)
        if rec.reductions or rec.error_calls:
            acc.key(dialect, tuple(t[0] for t in rec.tokens))
        if rec.error_calls and dialect == 'mindsdb':
            acc.count('error_reporter_runs')
        if rec.parse_calls > 1:
            acc.count('suggestion_reparses', rec.parse_calls - 1)
        if outcome == 'accepted':
            acc.count('accepted')
        elif outcome == 'rejected':
            acc.count('rejected_parsing_exception')
        elif outcome == 'lexerror':
            acc.count('rejected_lex_error')
        else:
            detail.update({'dialect': dialect, 'text': text, 'class': label, 'case': idx})
            acc.fail(sig, detail)
        if len(acc.samples) < 5 and idx % 11 == 0:
            acc.sample({'dialect': dialect, 'text': text[:160], 'class': label, 'outcome': outcome, 'logical_steps': n})


def replay(path):
    import json
    core.use_repo()
    monitors.install_parser_monitors()
    steps = monitors.StepCounter()
    w = json.load(open(path))
    bad = 0
    for wit in w['witnesses']:
        outcome, sig, detail, rec, n = run_one(wit['dialect'], wit['text'], steps)
        print(outcome, repr(wit['text'])[:200], sig, detail)
        bad += outcome == 'violation'
    return 1 if bad else 0
