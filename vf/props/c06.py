"""C06 - SQL rendered through SQLAlchemy means the same as the parsed statement.

Workload: executable statements over a fixed schema (generated in the intersection of the mindsdb dialect and SQLite
syntax) x random small database states (NULLs, duplicates, empty tables) x target dialects.  Monitor: boundary of
SqlalchemyRender.get_string(tree, with_failback=False).  Oracle: the sqlite3 reference engine executes the original
text and the rendered text on two copies of the same state: same rows (same order when the query fixes a total
order, multiset otherwise), same output column names for aliased targets, same final table contents for DML/DDL."""
import re
import sqlite3

from vf import core, monitors
from vf.gen import selgen

ID = 'C06'
LEVEL = 'translation_validation'
TECHNIQUE = 'differential execution on the sqlite3 reference engine: original text vs SqlalchemyRender output, over generated statements and random database states'
RULE = ('statements = generated SELECTs (expressions, every join kind, derived tables, IN/EXISTS/scalar subqueries, set operations, CTE, '
        'GROUP BY/HAVING, ORDER BY ASC/DESC NULLS FIRST/LAST, LIMIT/OFFSET under a total order, window functions) and INSERT/UPDATE/DELETE/'
        'CREATE TABLE/DROP TABLE, each on several random states; targets sqlite (always) and mysql/postgresql when SQLite accepts the text; '
        'non-trivial = both texts executed on a non-empty state; distinct by (statement, target)')
RULE += "; also: chains of 2-4 set operations over a non-unique column, trailing ORDER BY .. LIMIT after a set operation, CTE interaction shapes, aliases without AS, LIMIT 0 / beyond the row count, equal-valued int/float literals; MySQL output is read with MySQL's literal rule"
ASSUMPTIONS = ['sqlite3 3.40 is the reference engine; the original text is itself executable on it',
               '`/` is generated only with a REAL operand (SQLAlchemy renders true division; integer division is dialect-defined)',
               'real numbers are compared to 12 significant digits (a rendering may re-associate a chain of one associative operator: same value in SQL arithmetic, another last bit in binary floating point)',
               'FOR UPDATE and other non-row-level differences are not judged; unsupported shapes (NotImplementedError/SQLAlchemyError) are C17\'s business']
BUDGET = {'quick': (8, 270), 'thorough': (16, 1800)}
TARGETS = ('sqlite', 'mysql', 'postgresql')


def floors(tier):
    return {'compared': 3000, 'len:join_kinds': 8, 'len:setops': 4, 'dml_compared': 300, 'len:targets_executed': 2, 'ordered_compared': 300}


def ceilings(tier):
    # fractions of all evaluations; the unchanged tree stays below about two thirds of each
    return {'unsupported:*': 0.07, 'not_executable_here:*': 0.03}


def _fl(x):
    # real numbers are compared to 12 significant digits: a rendering may drop the parentheses of `a * (b * c)` (the same value in
    # SQL's arithmetic, another last bit in binary floating point) - an ASSUMPTION of the check, listed below
    return float('%.12g' % x) if isinstance(x, float) and x == x and abs(x) != float('inf') else x


def near(rows):
    return [tuple(_fl(x) for x in row) for row in rows]


def norm_rows(rows):
    return sorted(near(rows), key=repr)


def run_sql(state, text):
    db = sqlite3.connect(':memory:')
    try:
        selgen.load_state(db, state)
        cur = db.execute(text)
        rows = cur.fetchall()
        names = [d[0] for d in cur.description] if cur.description else None
        db.commit()
        return ('ok', names, rows, selgen.dump_state(db))
    except sqlite3.Error as e:
        return ('error', str(e), None, None)
    finally:
        db.close()


def mysql_to_standard(rendered):
    """MySQL reads a backslash inside a string literal as an escape character (the renderer doubles it for that target);
    the reference engine does not.  Rewrite the literals of MySQL output to the standard spelling: `\\\\` -> `\\`."""
    out, i, n = [], 0, len(rendered)
    while i < n:
        ch = rendered[i]
        if ch != "'":
            out.append(ch)
            i += 1
            continue
        j = i + 1
        lit = ["'"]
        while j < n:
            if rendered[j] == '\\' and j + 1 < n:
                lit.append(rendered[j + 1] if rendered[j + 1] == '\\' else rendered[j:j + 2])
                j += 2
            elif rendered[j] == "'" and rendered[j + 1:j + 2] == "'":
                lit.append("''")
                j += 2
            elif rendered[j] == "'":
                lit.append("'")
                j += 1
                break
            else:
                lit.append(rendered[j])
                j += 1
        out.append(''.join(lit))
        i = j
    return ''.join(out)


def unnest_left(rendered):
    """`((A op B) op C) op D` -> `A op B op C op D`: SQLAlchemy parenthesises a compound select that is the left
    operand of another one.  Those parentheses state exactly the left-to-right grouping SQLite applies to the flat
    text (all its set operators have equal precedence), but SQLite cannot parse them."""
    t = rendered
    while t.startswith('('):
        depth = 0
        in_str = False
        for i, ch in enumerate(t):
            if ch == "'":
                in_str = not in_str
            if in_str:
                continue
            if ch == '(':
                depth += 1
            elif ch == ')':
                depth -= 1
                if depth == 0:
                    break
        else:
            return t
        rest = t[i + 1:].lstrip()
        if not re.match(r'(UNION|INTERSECT|EXCEPT)\b', rest):
            return t
        t = t[1:i] + ' ' + rest
    return t


def clause_kind(text, rendered, g):
    """Mechanism hint for a disagreement: which construct of the statement the renderer changed (by probing the
    rendered text for the constructs the original has)."""
    T = text.upper()
    R = rendered.upper()
    kinds = []
    for jk in ('LEFT OUTER JOIN', 'FULL OUTER JOIN', 'RIGHT JOIN', 'FULL JOIN', 'LEFT JOIN', 'CROSS JOIN'):
        if jk in T:
            want = {'LEFT OUTER JOIN': 'LEFT OUTER JOIN', 'LEFT JOIN': 'LEFT OUTER JOIN', 'FULL OUTER JOIN': 'FULL OUTER JOIN',
                    'FULL JOIN': 'FULL OUTER JOIN', 'RIGHT JOIN': 'RIGHT', 'CROSS JOIN': 'JOIN'}[jk]
            if want not in R:
                kinds.append('join-kind:' + jk)
    if re.search(r'NOT \([A-Z0-9_.]+ IS (NOT )?NULL\)', T):
        kinds.append('not-over-is-null')
    return kinds


def run_trailing(ctx, r, renders, nstates):
    """Set operation followed by ORDER BY .. LIMIT (clauses of the whole set operation).  The renderer's output is executed
    with its parenthesised last operand written as a derived table (the reference engine has no `op (SELECT ..)`)."""
    from mindsdb_sql import parse_sql
    from sqlalchemy.exc import SQLAlchemyError
    acc = ctx.acc
    text, model, op = selgen.setop_trailing(r)
    try:
        tree = parse_sql(text, 'mindsdb')
    except Exception:
        acc.count('generator_text_rejected_by_parser')
        return
    states = [selgen.random_state(r) for _ in range(nstates)]
    for target in TARGETS:
        try:
            rendered = renders[target].get_string(tree.copy(), with_failback=False)
        except (SQLAlchemyError, NotImplementedError):
            acc.count('unsupported:' + target)
            continue
        except Exception:
            acc.count('renderer_internal_error_is_C17')
            continue
        m = re.match(r'(?s)^(.*?\b(?:UNION ALL|UNION|INTERSECT|EXCEPT)\s+)\((SELECT .*)\)\s*$', rendered)
        executable = rendered if not m else m.group(1) + 'SELECT * FROM (' + m.group(2) + ')'
        for st in states:
            acc.ev()
            a = run_sql(st, text)
            if a[0] != 'ok':
                acc.count('original_not_executable')
                continue
            b = run_sql(st, executable)
            if b[0] != 'ok':
                acc.count('not_executable_here:' + target)
                break
            acc.count('compared')
            acc.count('setop_trailing_compared')
            acc.add('targets_executed', target)
            acc.add('features', 'setop-trailing-order-limit')
            if a[2] != b[2]:
                kind = 'rows-differ'
                mm = run_sql(st, model)
                if mm[0] == 'ok' and norm_rows(mm[2]) == norm_rows(b[2]):
                    kind = 'setop-trailing-clause-bound-to-last-select'
                acc.fail({'kind': kind, 'target': target, 'stmt': 'query', 'clause': 'setop-trailing-order-limit'},
                         {'text': text, 'rendered': rendered, 'expected': repr(a[2])[:300], 'observed': repr(b[2])[:300], 'other_reading': model, 'state': st})
                break


def run_literals(ctx, renders):
    """String literals of every build (the other quote character at their ends, doubled quotes, blanks, empty) in a comparison and in the
    select list, read by each of the three parser dialects, against rows that hold exactly those values."""
    from mindsdb_sql import parse_sql
    from sqlalchemy.exc import SQLAlchemyError
    acc = ctx.acc
    vals = ['"q"', 'say "hi"', '"', 'a"b', '"lead', 'trail"', 'x y', ' pad ', '', 'plain', 'semi;colon', '--dash', '/*c*/', '%', '_', 'Ünï']
    vals_q = ["it's", "a'b c"]         # (a quote INSIDE: boundary quotes are C04-F1's decoding defect, not the renderer's business)
    state = {'t1': [(i + 1, i % 3, 0.5, v) for i, v in enumerate(vals + vals_q)], 't2': [], 't3': []}
    k = -1
    for v in vals + vals_q:
        lit = "'" + v.replace("'", "''") + "'"
        for text in (f'SELECT p.id AS id FROM t1 AS p WHERE p.c = {lit}', f'SELECT p.id AS id, {lit} AS v FROM t1 AS p WHERE p.id < 3',
                     f'SELECT p.id AS id FROM t1 AS p WHERE p.c IN ({lit}, {lit}) OR p.c LIKE {lit}'):
            for pdialect in ('mindsdb', 'mysql', 'sqlite'):
                k += 1
                if not ctx.mine(k):
                    continue
                try:
                    tree = parse_sql(text, pdialect)
                except Exception:
                    acc.count('literal_shape_rejected:' + pdialect)
                    continue
                a = run_sql(state, text)
                if a[0] != 'ok':
                    continue
                for target in TARGETS:
                    try:
                        rendered = renders[target].get_string(tree.copy(), with_failback=False)
                    except (SQLAlchemyError, NotImplementedError):
                        continue
                    except Exception:
                        acc.count('renderer_internal_error_is_C17')
                        continue
                    if target == 'mysql' and '\\' in rendered:
                        rendered = mysql_to_standard(rendered)
                    b = run_sql(state, rendered)
                    acc.ev()
                    if b[0] != 'ok':
                        acc.count('not_executable_here:' + target)
                        continue
                    acc.count('compared')
                    acc.count('literal_shapes_compared')
                    if norm_rows(a[2]) != norm_rows(b[2]):
                        acc.fail({'kind': 'rows-differ', 'target': target, 'clause': 'string-literal', 'stmt': 'query', 'parsed': 'by:' + pdialect},
                                 {'text': text, 'rendered': rendered, 'expected': repr(a[2])[:300], 'observed': repr(b[2])[:300]})


def run_shard(ctx):
    from mindsdb_sql import parse_sql
    from mindsdb_sql.render.sqlalchemy_render import SqlalchemyRender
    from sqlalchemy.exc import SQLAlchemyError
    acc = ctx.acc
    renders = {t: SqlalchemyRender(t) for t in TARGETS}
    run_literals(ctx, renders)
    n = 2500 if ctx.tier == 'quick' else 40000
    nstates = 3 if ctx.tier == 'quick' else 6
    for i in range(n):
        if not ctx.mine(i):
            continue
        if ctx.out_of_time():
            acc.notes.append(f'shard {ctx.shard}: time budget hit at {i}')
            break
        r = core.rng_for(ctx.seed, 'C06', i)
        g = selgen.Gen(r)
        if i % 12 == 5:
            run_trailing(ctx, r, renders, nstates)
            continue
        if r.random() < 0.75:
            text, ordered = g.query()
            is_query = True
        else:
            text, ordered, is_query = g.dml(), False, False
        ptext, pdialect = text, 'mindsdb'
        if i % 5 == 1:
            # the statement as it is, read by one of the other two parser dialects (their grammar actions build the nodes themselves)
            pdialect = r.choice(['mysql', 'sqlite'])
            acc.count('plain_parsed_by_other_dialect')
        if i % 5 in (2, 4):
            # the same statement with comments between its tokens (every comment style, also glued to the token before and starting
            # with what could continue an expression: `--1`), read by one of the three parser dialects: comments mean nothing
            try:
                toks = monitors.lex_all(text, 'mindsdb')
            except Exception:
                toks = []
            if len(toks) > 2:
                ptext = text
                # (mostly after a name, a number or a closing parenthesis: where an operator could follow); positions are token ends of the
                # ORIGINAL text, applied from the right so that they stay valid - a comment never lands inside a token (IS NOT, NOT IN are one)
                ends = [x for x in toks[:-1] if x[0] in ('ID', 'INTEGER', 'FLOAT', 'RPAREN', 'QUOTE_STRING')]
                picks = {(r.choice(ends) if ends and r.random() < 0.7 else toks[r.randrange(len(toks) - 1)])[3] for _ in range(r.choice([1, 1, 2]))}
                for at in sorted(picks, reverse=True):
                    cm = r.choice(['--1\n', '--x\n', '-- c\n', '/*c*/', '/* -- */', '--\n', '--+1\n', '/*1*/', '-- ;\n', '/**/', '--1\n', '--(1)\n', '--a\n', '--.5\n'])
                    if ptext[at:at + 1] in (' ', ''):
                        ptext = ptext[:at] + r.choice([' ', '']) + cm + ptext[at:]
                pdialect = r.choice(['mindsdb', 'mysql', 'mysql', 'sqlite', 'sqlite'])
                acc.count('commented_variants')
        try:
            tree = parse_sql(ptext, pdialect)
        except Exception as e:
            if ptext != text or pdialect != 'mindsdb':
                acc.count('commented_variant_rejected:' + pdialect)
                try:
                    tree = parse_sql(text, 'mindsdb')
                    ptext, pdialect = text, 'mindsdb'
                except Exception:
                    acc.count('generator_text_rejected_by_parser')
                    continue
            else:
                acc.count('generator_text_rejected_by_parser')
                continue
        if ptext != text:
            acc.count('commented_variant_parsed:' + pdialect)
        states = [selgen.random_state(r) for _ in range(nstates)]
        for target in TARGETS:
            try:
                rendered = renders[target].get_string(tree.copy(), with_failback=False)
            except (SQLAlchemyError, NotImplementedError):
                acc.count('unsupported:' + target)
                continue
            except Exception as e:
                acc.count('renderer_internal_error_is_C17')
                continue
            for si, st in enumerate(states):
                acc.ev()
                a = run_sql(st, text)
                if a[0] != 'ok':
                    acc.count('original_not_executable')     # generator fault, never a verdict
                    continue
                if target == 'mysql' and '\\' in rendered:
                    rendered = mysql_to_standard(rendered)
                    acc.count('mysql_literals_translated')
                b = run_sql(st, rendered)
                chain = any(f.startswith('setop-chain:') for f in g.features)
                if b[0] != 'ok' and chain and rendered.startswith('('):
                    if target == 'sqlite' and si == 0:
                        acc.fail({'kind': 'rendered-not-executable', 'target': target, 'stmt': 'query', 'shape': 'setop-chain'},
                                 {'text': text, 'rendered': rendered, 'error': b[1]})
                    # keep deciding the rows: execute the same grouping written the way the reference engine reads it
                    b = run_sql(st, unnest_left(rendered))
                    if b[0] == 'ok':
                        acc.count('setop_chain_executed_unnested')
                if b[0] != 'ok':
                    if target == 'sqlite':
                        acc.fail({'kind': 'rendered-not-executable', 'target': target, 'stmt': 'query' if is_query else text.split()[0].upper(), 'shape': '-'},
                                 {'text': text, 'rendered': rendered, 'error': b[1]})
                    else:
                        acc.count('not_executable_here:' + target)
                    break
                acc.count('compared')
                acc.add('targets_executed', target)
                for f in g.features:
                    if f.startswith('join:'):
                        acc.add('join_kinds', f[5:])
                    if f.startswith('setop:'):
                        acc.add('setops', f[6:])
                    acc.add('features', f)
                if any(st.values()):
                    acc.key(text, target)
                diff = None
                if is_query:
                    ra, rb = a[2], b[2]
                    if ordered:
                        acc.count('ordered_compared')
                        if near(ra) != near(rb):
                            diff = 'rows-or-order-differ' if norm_rows(ra) == norm_rows(rb) else 'rows-differ'
                            if diff == 'rows-or-order-differ':
                                diff = 'order-differs'
                    elif norm_rows(ra) != norm_rows(rb):
                        diff = 'rows-differ'
                    if diff is None and a[1] != b[1]:
                        # all targets carry explicit aliases in this generator
                        if [x.lower() for x in a[1]] != [x.lower() for x in b[1]] and not text.startswith('WITH') :
                            diff = 'column-names-differ'
                else:
                    acc.count('dml_compared')
                    if a[3] != b[3]:
                        diff = 'table-state-differs'
                if diff:
                    hints = clause_kind(text, rendered, g) or ['unattributed']
                    sig = {'kind': diff, 'target': target if target != 'postgresql' else 'postgresql', 'clause': '+'.join(sorted(hints)),
                           'stmt': 'query' if is_query else text.split()[0].upper()}
                    if ptext != text:
                        sig['parsed'] = 'with-comments:' + pdialect
                    elif pdialect != 'mindsdb':
                        sig['parsed'] = 'by:' + pdialect
                    acc.fail(sig, {'text': text, 'parsed_text': ptext, 'rendered': rendered, 'state': {k: v for k, v in st.items()},
                                   'expected': repr(a[2] if is_query else a[3])[:600], 'observed': repr(b[2] if is_query else b[3])[:600]})
                    break
                elif len(acc.samples) < 5 and i % 31 == 0 and si == 0:
                    acc.sample({'text': text[:300], 'target': target, 'rendered': rendered[:300], 'rows': len(a[2]) if is_query else None, 'agree': True})


def coverage_extra(m, tier):
    return {'programs': m['counters'].get('compared', 0),
            'disagreements_checked': sum(e['n'] for e in m['failures'].values())}


def replay(path):
    import json
    from mindsdb_sql import parse_sql
    from mindsdb_sql.render.sqlalchemy_render import SqlalchemyRender
    w = json.load(open(path))
    bad = 0
    for wit in w['witnesses']:
        tree = parse_sql(wit['text'], 'mindsdb')
        rendered = SqlalchemyRender(w['signature']['target']).get_string(tree, with_failback=False)
        st = {k: [tuple(r) for r in v] for k, v in wit['state'].items()}
        a, b = run_sql(st, wit['text']), run_sql(st, rendered)
        print(wit['text'], '\n ->', rendered, '\n original:', a[2], '\n rendered:', b[2] if b[0] == 'ok' else b[1])
        bad += (a[2] != b[2])
    return 1 if bad else 0
