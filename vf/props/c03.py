"""C03 - operators group by standard SQL precedence and associativity in every dialect.

Workload: operator trees over the property's alphabet (exhaustive up to a size bound, random beyond)
printed by a reference minimal-parenthesis printer, embedded in six expression contexts, three dialects.
Monitor: parse_sql boundary + shape extractor over Binary/Unary/BetweenOperation/Tuple args.
Oracle: (1) parsed shape == generated tree and user parentheses kept; (2) the sqlite3 reference engine
evaluates the original text and the fully parenthesised text of the parsed tree over a value grid (attached
as the wrong-result witness); (3) self-check of the reference printer against sqlite3 (harness faults are
counted, never reported as violations)."""
import itertools
import re
import sqlite3

from vf import core
from vf.gen import exprtree as X

ID = 'C03'
LEVEL = 'exploration'
TECHNIQUE = 'runtime monitor on parse_sql: generated operator trees vs parsed grouping; sqlite3 reference engine as semantic witness and printer self-check'
RULE = ('operator trees over {unary -, * / %, + -, = != < <= > >=, IN, BETWEEN, LIKE, IS [NOT] NULL, NOT, AND, OR}: all trees '
        'with <= 2 operators over the full alphabet (quick) / <= 3 (thorough; quick uses class representatives for 3), random '
        'trees of 4-7 operators, each x contexts {select list, WHERE, ON, HAVING, function argument, CASE branch} x 3 dialects, '
        'plus redundant user parentheses; non-trivial = tree with >= 2 operators; distinct by (tree, context, dialect)')
RULE += '; also: NOT IN / NOT LIKE, operator keywords in lower / mixed case, expressions laid out over several lines with tabs and comments'
ASSUMPTIONS = ['standard precedence (tightest first): unary minus; * / %; + -; comparisons and predicates; NOT; AND; OR; left-assoc chains',
               'a comparison/predicate directly under a comparison/predicate is always parenthesised (the property\'s side condition)',
               'sqlite3 3.40 as reference engine; its finer levels (< tighter than =) are invisible under the side condition']
BUDGET = {'quick': (16, 240), 'thorough': (16, 1800)}
DIALECTS = ('mindsdb', 'mysql', 'sqlite')

CONTEXTS = {
    'select': 'SELECT {e} FROM t',
    'where': 'SELECT z FROM t WHERE {e}',
    'on': 'SELECT z FROM t JOIN u ON {e}',
    'having': 'SELECT z FROM t GROUP BY z HAVING {e}',
    'funcarg': 'SELECT f({e}, z) FROM t',
    'case': 'SELECT CASE WHEN {e} THEN 1 ELSE {e} END FROM t',
    # the same expression grammar reached from other statements (other LR states: a SHOW has LIKE / IN / FROM clauses of its own)
    'show-where': 'SHOW TABLES WHERE {e}',
    'update-where': 'UPDATE t SET z = 1 WHERE {e}',
    'update-set': 'UPDATE t SET z = {e}',
    'delete-where': 'DELETE FROM t WHERE {e}',
    'order-by': 'SELECT z FROM t ORDER BY {e}',
    'insert-values': 'INSERT INTO t (z) VALUES ({e})',
}
LEAVES = ['a', 'b', 'c', 'd', 'e', 'a', 'b', 'c']


def floors(tier):
    return {'checked': 5000, 'len:contexts': 6, 'len:dialects': 3, 'len:pairs': 150, 'printer_selfchecks': 300}


# ---------------------------------------------------------------------------------------------
# shape extraction from the library's tree
# ---------------------------------------------------------------------------------------------

def shape_of(n, marks=None, path=()):
    """Library AST -> exprtree form (paren-free); marks[path]=True for nodes with parentheses=True."""
    from mindsdb_sql.parser import ast as A
    cls = type(n).__name__
    if marks is not None and getattr(n, 'parentheses', False):
        marks[path] = True
    if cls == 'Identifier':
        return ('leaf', '.'.join(str(p) for p in n.parts))
    if cls == 'Constant':
        v = n.value
        if isinstance(v, (int, float)) and not isinstance(v, bool) and v < 0:
            return ('neg', ('leaf', str(-v)))
        return ('leaf', str(v))
    if cls == 'NullConstant':
        return ('leaf', 'NULL')
    if cls == 'UnaryOperation':
        op = n.op.lower()
        k = 'neg' if op == '-' else 'not' if op == 'not' else 'other:' + op
        return (k, shape_of(n.args[0], marks, path + (0,)))
    if cls == 'BetweenOperation':
        return ('between',) + tuple(shape_of(a, marks, path + (i,)) for i, a in enumerate(n.args))
    if cls == 'BinaryOperation':
        op = n.op.lower()
        l = shape_of(n.args[0], marks, path + (0,))
        if op in ('is', 'is not') and type(n.args[1]).__name__ == 'NullConstant':
            return ('isnull' if op == 'is' else 'isnotnull', l)
        if op in ('in', 'not in'):
            r = n.args[1]
            if type(r).__name__ == 'Tuple':
                items = [shape_of(i) for i in r.items]
            else:
                items = [shape_of(r)]
            return ('in' if op == 'in' else 'notin', l, items)
        r = shape_of(n.args[1], marks, path + (1,))
        if op == 'like':
            return ('like', l, r)
        if op == 'not like':
            return ('notlike', l, r)
        if op == '<>':
            op = '!='
        if op in ('and', 'or'):
            op = op.upper()
        if op in X.BIN_OPS:
            return ('bin', op, l, r)
        return ('other:' + op, l, r)
    return ('other:' + cls,)


def fold_neg(t):
    """-(-(numeric constant)) == the constant: the grammar's `MINUS constant` folds it; semantics-preserving,
    so both sides are normalised the same way."""
    if t[0] == 'leaf':
        return t
    if t[0] == 'neg' and t[1][0] == 'neg' and t[1][1][0] == 'leaf' and re.fullmatch(r'[0-9.]+', t[1][1][1] or ''):
        return t[1][1]
    if t[0] == 'in':
        return ('in', fold_neg(t[1]), t[2])
    if t[0] == 'bin':
        return ('bin', t[1], fold_neg(t[2]), fold_neg(t[3]))
    return (t[0],) + tuple(fold_neg(c) if isinstance(c, tuple) else c for c in t[1:])


def find_expr(ast, ctx):
    """The node(s) holding the embedded expression."""
    if ctx == 'select':
        return [ast.targets[0]]
    if ctx == 'where':
        return [ast.where]
    if ctx == 'on':
        return [ast.from_table.condition]
    if ctx == 'having':
        return [ast.having]
    if ctx == 'funcarg':
        return [ast.targets[0].args[0]]
    if ctx == 'case':
        c = ast.targets[0]
        return [c.rules[0][0], c.default]
    if ctx in ('show-where', 'update-where', 'delete-where'):
        return [ast.where]
    if ctx == 'update-set':
        return [ast.update_columns['z']]
    if ctx == 'order-by':
        return [ast.order_by[0].field]
    if ctx == 'insert-values':
        return [ast.values[0][0]]
    raise ValueError(ctx)


def first_mismatch(exp, act):
    """(expected node, actual node) at the first (pre-order) position where top operators differ, or
    the node whose operands differ."""
    if exp[0] == 'leaf' or act[0] == 'leaf' or X.kind_of(exp) != X.kind_of(act):
        return exp, act
    ec, ac = X.children(exp), X.children(act)
    if len(ec) != len(ac):
        return exp, act
    for e, a in zip(ec, ac):
        if e != a:
            return first_mismatch(e, a)
    return exp, act


def kclass(t):
    if t[0] == 'leaf':
        return 'leaf'
    if t[0].startswith('other'):
        return t[0]
    return X.opclass(X.kind_of(t))


def signature(dialect, exp, act):
    e, a = first_mismatch(exp, act)
    if kclass(e) != kclass(a) or e[0] == 'leaf' or a[0] == 'leaf':
        return {'kind': 'precedence', 'dialect': dialect, 'expected_top': kclass(e), 'parsed_top': kclass(a)}
    # same operator class on top: which child class moved
    ec, ac = X.children(e), X.children(a)
    return {'kind': 'associativity', 'dialect': dialect, 'op': kclass(e),
            'expected_children': '/'.join(kclass(c) for c in ec), 'parsed_children': '/'.join(kclass(c) for c in ac)}


# ---------------------------------------------------------------------------------------------
# sqlite grid
# ---------------------------------------------------------------------------------------------

class Grid:
    def __init__(self):
        self.db = sqlite3.connect(':memory:')
        vals = [-1, 0, 1, 2, None]
        self.db.execute('create table g (a, b, c, d, e)')
        rows = [r + (1,) for r in itertools.product(vals, repeat=4)]
        self.db.executemany('insert into g values (?,?,?,?,?)', rows)

    def differ(self, s1, s2):
        """Number of grid rows on which two expressions differ (None if either fails to run)."""
        try:
            return self.db.execute(f'select count(*) from g where ({s1}) is not ({s2})').fetchone()[0]
        except sqlite3.Error:
            return None

    def example(self, s1, s2):
        try:
            r = self.db.execute(f'select a, b, c, d, ({s1}), ({s2}) from g where ({s1}) is not ({s2}) limit 1').fetchone()
            return {'a': r[0], 'b': r[1], 'c': r[2], 'd': r[3], 'original_text_value': r[4], 'parsed_tree_value': r[5]}
        except Exception:
            return None


# ---------------------------------------------------------------------------------------------
# workload
# ---------------------------------------------------------------------------------------------

def trees(ctx):
    """Yield (label, tree) deterministically; same stream in every shard."""
    tier = ctx.tier
    for n in (1, 2):
        for t in X.shapes(n, X.ALL_KINDS):
            yield f'exh{n}', t
    kinds3 = X.ALL_KINDS if tier == 'thorough' else X.REP_KINDS
    for t in X.shapes(3, kinds3):
        yield 'exh3' if tier == 'thorough' else 'exh3rep', t
    r = ctx.sub_rng('random-trees')
    nrand = 3000 if tier == 'quick' else 60000
    for i in range(nrand):
        yield 'rand', X.random_tree(r, r.randint(4, 7))


# a comment (and only then) between the two words of IS NOT / NOT IN / NOT LIKE: group(1) .. group(2)
_C = r'(?:/\*(?:(?!\*/).)*\*/|--[^\n]*\n)'
HEAL = re.compile(r'(?is)\b(IS|NOT)\s*' + _C + r'(?:\s|' + _C + r')*(NOT|IN|LIKE)\b')
BLANKS = [' ', '\n', '\t', '  ', '\r\n', '\n   ', ' /* c */ ', ' -- c\n', '\n\n']
_SYM = set('+-*/%=<>!|(),')


def tight(text):
    """The same token sequence with every blank removed that is not needed to keep two tokens apart (a word next to a symbol:
    `a-b*c`, `x=1`, `NOT(a)`); between two words and between two symbols the blank stays."""
    parts = text.split(' ')
    out = parts[0]
    for b in parts[1:]:
        if out and b and ((out[-1] in _SYM) != (b[0] in _SYM)) and out[-1] not in '\'"' and b[0] not in '\'"':
            out += b
        else:
            out += ' ' + b
    return out


def run_shard(ctx):
    from mindsdb_sql import parse_sql
    from mindsdb_sql.exceptions import ParsingException
    acc = ctx.acc
    grid = Grid()
    ctxnames = list(CONTEXTS)
    # a dialect that does not have a context at all (e.g. no CASE in the sqlite dialect) is not judged there
    supported = set()
    for d in DIALECTS:
        for c, tmpl in CONTEXTS.items():
            try:
                parse_sql(tmpl.format(e='a = b'), d)
                supported.add((d, c))
            except Exception:
                acc.add('contexts_unsupported', f'{d}:{c}')
    # operator spellings a dialect does not have at all (NOT LIKE outside the mindsdb dialect) are not judged there
    kind_ok = {}
    for d in DIALECTS:
        for kind, probe in (('notlike', 'a NOT LIKE b'), ('notin', 'a NOT IN (1, 2)')):
            try:
                parse_sql('SELECT ' + probe + ' FROM t', d)
                kind_ok[(d, kind)] = True
            except Exception:
                kind_ok[(d, kind)] = False
                acc.add('kinds_unsupported', f'{d}:{kind}')
    idx = -1
    for label, shape in trees(ctx):
        idx += 1
        if not ctx.mine(idx):
            continue
        if ctx.out_of_time():
            acc.notes.append(f'shard {ctx.shard}: time budget hit at tree {idx}')
            break
        r = core.rng_for(ctx.seed, 'C03', 'tree', idx)
        names = list(LEAVES)
        # some leaves are constants (exercises `MINUS constant`)
        if r.random() < 0.3:
            names = [n if r.random() < 0.6 else r.choice(['1', '2', '3']) for n in names]
        tree = X.name_leaves(shape, iter(names * 3))
        variants = [('plain', tree)]
        if r.random() < 0.35 or label.startswith('rand'):
            variants.append(('userparens', X.add_user_parens(tree, r)))
        # contexts: exhaustive for small trees, rotating for the rest
        if label in ('exh1', 'exh2'):
            cs = ctxnames
        else:
            cs = [ctxnames[idx % 6], ctxnames[(idx // 6 + 3) % 6]] if ctx.tier == 'thorough' else [ctxnames[idx % 6]]
        for vname, vt in variants:
            marks = {}
            text = X.minimal(vt, marks)
            bare = X.strip_parens(vt)
            nops = X.nops(bare)
            # printer self-check against sqlite (sampled)
            if idx % 5 == 0 and vname == 'plain':
                d = grid.differ(text, X.full(bare))
                acc.count('printer_selfchecks')
                if d is None or d > 0:
                    acc.count('harness_printer_fault')
                    acc.notes.append(f'printer self-check failed for {text!r}: {d}')
                    continue
            for c in cs:
                for dialect in DIALECTS:
                    if (dialect, c) not in supported:
                        continue
                    if any(not kind_ok.get((dialect, X.kind_of(nd)), True) for nd in _nodes(bare)):
                        continue
                    if c in ('where', 'having', 'on', 'update-where', 'delete-where', 'show-where') and _is_plain_value(bare):
                        # WHERE/HAVING demand an operation; a folded constant such as -1 is not one (not a grouping matter)
                        acc.count('skipped_non_boolean_context')
                        continue
                    etext = text
                    if (idx + len(c)) % 5 == 2:
                        # keywords are case-insensitive: the operator words in lower / mixed case (operands untouched)
                        etext = re.sub(r'\b(AND|OR|NOT|IN|BETWEEN|LIKE|IS|NULL)\b', lambda m_: m_.group(1).lower() if idx % 2 else m_.group(1).capitalize(), text)
                        acc.count('keyword_case_variants')
                    if (idx + len(c)) % 4 == 1:
                        # the same token sequence laid out over several lines / with tabs and comments between the tokens
                        etext = ''.join(r.choice(BLANKS) if ch == ' ' else ch for ch in etext)
                        acc.count('relayouted')
                    elif (idx + len(c)) % 4 == 3:
                        etext = tight(etext)
                        acc.count('tight_layouts')
                    sql = CONTEXTS[c].format(e=etext)
                    acc.ev()
                    try:
                        ast = parse_sql(sql, dialect)
                    except ParsingException as e:
                        acc.count('rejected')
                        if etext != text:
                            # C03-F2's other face: the words of NOT IN / NOT LIKE separated by a comment are rejected
                            healed = HEAL.sub(lambda m_: m_.group(1) + ' ' + m_.group(2), etext)
                            if healed != etext:
                                try:
                                    nodes2 = list(find_expr(parse_sql(CONTEXTS[c].format(e=healed), dialect), c))
                                    if nodes2 and all(fold_neg(fold_neg(shape_of(n2, {}))) == fold_neg(fold_neg(bare)) for n2 in nodes2):
                                        acc.fail({'kind': 'precedence', 'dialect': dialect, 'cause': 'comment-inside-two-word-operator'},
                                                 {'sql': sql, 'dialect': dialect, 'error': str(e)[:200], 'outcome': 'rejected'})
                                        continue
                                except Exception:
                                    pass
                        kinds = sorted({X.opclass(X.kind_of(n)) for n in _nodes(bare)})
                        sig = {'kind': 'rejected', 'dialect': dialect, 'context': c if nops == 0 else '*',
                               'ops': '+'.join(kinds) if len(kinds) <= 2 else _reduce_rejection(parse_sql, dialect, bare, ParsingException)}
                        acc.fail(sig, {'sql': sql, 'dialect': dialect, 'error': str(e)[:200], 'tree': repr(bare)[:300]})
                        continue
                    except Exception as e:
                        acc.count('crashed')
                        acc.fail({'kind': 'crash', 'dialect': dialect, 'etype': type(e).__name__},
                                 {'sql': sql, 'dialect': dialect, 'error': str(e)[:200]})
                        continue
                    acc.count('checked')
                    acc.add('contexts', c)
                    acc.add('dialects', dialect)
                    if nops >= 2:
                        acc.key(dialect, c, text)
                    for parent in _nodes(bare):
                        for slot, ch in enumerate(X.children(parent)):
                            if ch[0] != 'leaf':
                                acc.add('pairs', f'{X.kind_of(parent)}>{X.kind_of(ch)}@{slot}')
                    for node in find_expr(ast, c):
                        amarks = {}
                        got = shape_of(node, amarks)
                        if got != bare and fold_neg(fold_neg(got)) == fold_neg(fold_neg(bare)):
                            acc.count('constant_folding_accepted')
                            continue
                        if got != bare:
                            sig = signature(dialect, bare, got)
                            # executable defect model for C03-F2: does the grouping come out right once the comments that
                            # stand between IS and NOT (and only those; a gap of white space alone is left as it is) are replaced by a blank?
                            sig['cause'] = '-'
                            if etext != text:
                                healed = HEAL.sub(lambda m_: m_.group(1) + ' ' + m_.group(2), etext)
                                if healed != etext:
                                    try:
                                        nodes2 = list(find_expr(parse_sql(CONTEXTS[c].format(e=healed), dialect), c))
                                        if nodes2 and all(fold_neg(fold_neg(shape_of(n2, {}))) == fold_neg(fold_neg(bare)) for n2 in nodes2):
                                            sig = {'kind': 'precedence', 'dialect': dialect, 'cause': 'comment-inside-two-word-operator'}
                                    except Exception:
                                        pass
                            full_got = _safe_full(got)
                            wit = {'sql': sql, 'dialect': dialect, 'context': c, 'expected_grouping': X.full(bare),
                                   'parsed_grouping': full_got or repr(got)[:300]}
                            if full_got:
                                wit['sqlite_rows_differing'] = grid.differ(text, full_got)
                                wit['sqlite_example'] = grid.example(text, full_got)
                            acc.fail(sig, wit)
                            break
                        missing = [p for p in marks if p not in amarks]
                        if missing:
                            acc.fail({'kind': 'user-parentheses-lost', 'dialect': dialect},
                                     {'sql': sql, 'dialect': dialect, 'paths': [list(p) for p in missing][:5]})
                            break
                    if len(acc.samples) < 5 and nops >= 3 and idx % 13 == 0:
                        acc.sample({'sql': sql, 'dialect': dialect, 'tree': X.full(bare), 'grouping_ok': True})


def _is_plain_value(t):
    """a leaf, or unary minus signs over a numeric constant (which the grammar folds into one constant): not an operation"""
    while t[0] == 'neg':
        t = t[1]
        if t[0] == 'leaf' and not re.fullmatch(r'[0-9.]+', t[1] or ''):
            return False
    return t[0] == 'leaf'


def _nodes(t):
    if t[0] == 'leaf':
        return
    yield t
    for c in X.children(t):
        yield from _nodes(c)


def _safe_full(t):
    try:
        if any(n[0].startswith('other') for n in _nodes(t)):
            return None
        return X.full(t)
    except Exception:
        return None


def _reduce_rejection(parse_sql, dialect, tree, exc):
    """Smallest sub-tree (by operator count) that is still rejected in the select-list context."""
    best = None
    for n in sorted(_nodes(tree), key=X.nops):
        try:
            parse_sql('SELECT ' + X.minimal(n) + ' FROM t', dialect)
        except exc:
            best = n
            break
        except Exception:
            continue
    if best is None:
        return 'context-dependent'
    kinds = [X.opclass(X.kind_of(best))] + [X.opclass(X.kind_of(c)) if c[0] != 'leaf' else 'leaf' for c in X.children(best)]
    return '>'.join(kinds)


def coverage_extra(m, tier):
    return {'exhaustive': False,
            'exhaustive_note': 'trees with <= 2 operators over the full alphabet are enumerated completely in both tiers; '
                               '3 operators completely in the thorough tier (class representatives in quick)',
            'ordered_operator_pairs_covered': len(m['sets'].get('pairs', ())),
            'harness_printer_faults': m['counters'].get('harness_printer_fault', 0)}


def replay(path):
    import json
    from mindsdb_sql import parse_sql
    w = json.load(open(path))
    for wit in w['witnesses']:
        print(wit.get('sql'), '|', wit.get('dialect'))
        try:
            print('  parsed:', parse_sql(wit['sql'], wit['dialect']).to_tree()[:600])
        except Exception as e:
            print('  ', type(e).__name__, e)
    return 1
