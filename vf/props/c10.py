"""C10 - every table and model in a query is routed to the place its name resolves to.

Workload: statements in which every table and model is a unique marker (tb_07, mdl_2) with a known home; table
positions FROM, JOIN, subquery in WHERE / select list / CASE operand / function argument, CTE, INSERT..SELECT,
UPDATE..FROM, DELETE; qualifier spellings int1 / INT1 / Int1; six catalog forms.  Monitor: boundary of plan_query;
reflective collection of identifiers per step.  Oracle: generator ground truth (marker -> home) on every fetch / DML /
apply-predictor step, and metamorphic equality of the routing map across spellings and catalog forms."""
import copy
import re

from vf import core, monitors
from vf.gen import fedgen

ID = 'C10'
LEVEL = 'exploration'
TECHNIQUE = 'runtime monitor on plan_query with self-identifying marker names: per-step routing checked against generator ground truth; metamorphic comparison across qualifier spellings and catalog forms'
RULE = ('marker statements: 1-3 tables over 3 integrations (+ default namespace), optional model join (project, version suffix), table '
        'positions {FROM, JOIN, WHERE-subquery, target-subquery, CASE-operand subquery, function-argument subquery, CTE, INSERT..SELECT, '
        'UPDATE..FROM, DELETE-subquery} x qualifier spellings {lower, UPPER, Capitalised} x catalog forms; non-trivial = query with >= 2 '
        'tables or a model; distinct by (statement, catalog form)')
RULE += '; data tables named like a model of the catalog, three-part table names whose schema is spelled like another integration / project; also: fully qualified columns, DELETE/UPDATE with qualified WHERE, select-from-model, the same model in two sub-queries, CTE named like a foreign table, ten catalog spellings, one planner planning a sequence (CTE-then-table sequences)'
ASSUMPTIONS = ['marker names are unique, so an identifier part tb_NN / mdl_N identifies its table / model wherever it appears',
               'first name part matched case-insensitively against integrations and projects, otherwise the default namespace']
BUDGET = {'quick': (8, 240), 'thorough': (16, 1800)}
INTS = ['int1', 'int2', 'int3', 'außen4',      # (a name on which lower() and casefold() disagree)
        'files', 'views',                      # the pseudo-databases: data tables live there too, and are fetched from there
        'm', 's']                              # one-letter names (letters of the default project's name)


def floors(tier):
    return {'plans_checked': 1500, 'len:positions': 18, 'len:spellings': 3, 'len:catalog_forms': 5, 'metamorphic_pairs': 500, 'model_queries': 200}


def ceilings(tier):
    # fractions of all evaluations; the unchanged tree stays below about two thirds of each
    return {'planning_rejections': 0.05, 'internal_error_is_C09': 0.01}


def spell(name, style):
    if not name.isascii():
        # upper() is not a spelling of the same name here (ß -> SS); written between back-quotes, as given or capitalised
        return '`' + (name if style != 'cap' else name.capitalize()) + '`'
    return name if style == 'lower' else name.upper() if style == 'upper' else name.capitalize()


class Case:
    def __init__(self, r, style):
        self.r = r
        self.style = style
        self.homes = {}        # marker -> integration (lower)
        self.models = {}       # marker -> (project, version or None)
        self.n = 0
        self.positions = set()
        self.uses_project = False
        self.schemas = {}      # marker -> schema part of a three-part table name
        self.needs_zz = False

    def tbl(self, home=None, name=None, schema=None):
        self.n += 1
        m = name or f'tb_{self.n:02d}'
        if schema:
            # a three-part name: integration.schema.table (the schema may be spelled like another integration)
            home = home or self.r.choice(INTS)
            self.homes[m] = home
            self.schemas[m] = schema
            return f'{spell(home, self.style)}.{schema if schema.isascii() else "`" + schema + "`"}.{m}'
        if home is None and name is None and self.r.random() < 0.12:
            home = 'proj2'              # a table (view) of a project that holds no model: declared in the catalog as a non-data entry
            self.uses_project = True
        home = home or self.r.choice(INTS)
        self.homes[m] = home
        return f'{spell(home, self.style)}.{m}'

    def sub(self, alias, home=None):
        return f'SELECT {alias}.c FROM {self.tbl(home)} AS {alias} WHERE {alias}.k > 1'


def build(r, style, kind=None, default_ns=None):
    """(text, Case)"""
    c = Case(r, style)
    kind = kind or r.choice(['from', 'join', 'join3', 'where-sub', 'target-sub', 'case-sub', 'func-sub', 'cte', 'insert-select', 'update-from',
                             'delete-sub', 'model', 'model-version', 'model-2tables', 'union', 'where-sub-join', 'target-sub-join',
                             'model-twice', 'model-twice', 'qualified-cols', 'delete-qualified', 'update-qualified', 'model-select',
                             'model-sub-twice', 'cte-named-like-foreign-table', 'table-named-like-model', 'schema-named-like-integration', 'ts-model-join', 'native-query', 'schema-named-like-integration', 'table-named-like-model',
                             'twin-tables', 'unqualified-via-default-namespace', 'same-int-join-foreign-sub', 'same-int-join-foreign-sub'])
    c.positions.add(kind)
    if kind == 'table-named-like-model':
        # a data table whose name is also the name of a model in the catalog (of the default project, or of another project)
        c.needs_zz = True
        home = r.choice(INTS)
        tz = c.tbl(home, name=r.choice(['zz_last', 'zz_before', 'zz_after']))
        t2 = c.tbl(r.choice([i for i in INTS if i != home]))
        return r.choice([
            f'SELECT a1.c, a2.c FROM {tz} AS a1 JOIN {t2} AS a2 ON a1.k = a2.k WHERE a1.x > 1',
            f'SELECT a2.c FROM {t2} AS a2 WHERE a2.k IN (SELECT a1.c FROM {tz} AS a1)',
            f'INSERT INTO {t2} (c) SELECT a1.c FROM {tz} AS a1',
            f'SELECT a1.c FROM {tz} AS a1 UNION SELECT a2.c FROM {t2} AS a2',
            f'SELECT a1.c, a2.c FROM {t2} AS a2 LEFT JOIN {tz} AS a1 ON a1.k = a2.k']), c
    if kind == 'twin-tables':
        # the same table name - and the same query text around it - in two integrations: two tables, two fetches
        h1, h2 = r.sample(INTS, 2)
        c.n += 1
        m_ = f'tb_{c.n:02d}'
        c.homes[m_] = h1
        c.twins = {m_: {h1, h2}}
        q1, q2 = f'{spell(h1, style)}.{m_}', f'{spell(h2, style)}.{m_}'
        shape = r.randrange(5)
        if shape == 0:
            return f'SELECT c FROM {q1} WHERE k > 1 UNION SELECT c FROM {q2} WHERE k > 1', c
        if shape == 1:
            return f'SELECT c FROM {q1} UNION ALL SELECT c FROM {q2}', c
        if shape == 2:
            return f'SELECT a1.c, (SELECT max(c) FROM {q1}) AS m1, (SELECT max(c) FROM {q2}) AS m2 FROM {c.tbl()} AS a1', c
        if shape == 3:
            return f'SELECT a1.c FROM {c.tbl()} AS a1 WHERE a1.k IN (SELECT c FROM {q1}) AND a1.x IN (SELECT c FROM {q2})', c
        return f'SELECT * FROM {q1} AS a1 JOIN {q2} AS a2 ON a1.k = a2.k', c
    if kind == 'unqualified-via-default-namespace':
        # a table written without qualifier: it lives in the default namespace; inside nested selects and joins it is still a table to fetch
        if default_ns not in INTS:
            kind = 'where-sub'
            c.positions.discard('unqualified-via-default-namespace')
            c.positions.add(kind)
        else:
            c.n += 1
            m_ = f'tb_{c.n:02d}'
            c.homes[m_] = default_ns
            # (the join partners may themselves live in the default namespace; the nested table is written bare or with that qualifier)
            o1 = r.choice(INTS)
            o2 = r.choice([i for i in INTS if i != o1])
            if r.random() < 0.4:
                m_ = f'{spell(default_ns, style)}.{m_}'
            shape = r.randrange(7)
            t_o1 = c.tbl(o1)
            if shape == 5:
                # (nested select written without alias and with bare column names)
                return f'SELECT * FROM {t_o1} AS a1 JOIN {c.tbl(o2)} AS a2 ON a1.k = a2.k WHERE a1.x IN (SELECT c FROM {m_})', c
            if shape == 6:
                return f'SELECT a1.*, (SELECT max(c) FROM {m_}) AS mx FROM {t_o1} AS a1 JOIN {c.tbl(o2)} AS a2 ON a1.k = a2.k', c
            if shape == 0:
                return f'SELECT a1.c FROM {t_o1} AS a1 JOIN {c.tbl(o2)} AS a2 ON a1.k = a2.k WHERE a1.k IN (SELECT s1.c FROM {m_} AS s1)', c
            if shape == 1:
                return f'SELECT a1.c, (SELECT max(s1.c) FROM {m_} AS s1) AS mx FROM {t_o1} AS a1 JOIN {c.tbl(o2)} AS a2 ON a1.k = a2.k', c
            if shape == 2:
                return f'SELECT a1.c FROM {t_o1} AS a1 JOIN {m_} AS a2 ON a1.k = a2.k', c
            if shape == 3:
                return f'SELECT a1.c FROM {m_} AS a1 WHERE a1.k IN (SELECT s1.c FROM {t_o1} AS s1)', c
            return f'SELECT a1.c FROM {t_o1} AS a1 WHERE EXISTS (SELECT 1 FROM {m_} AS s1 WHERE s1.k = 1)', c
    if kind == 'native-query':
        # a raw query handed to an integration by name: `int1 (select ...)`, alone or as a join member; the marker inside the raw text
        # says where it belongs
        home = r.choice(['int1', 'int2', 'int3'])
        c.n += 1
        m_ = f'tb_{c.n:02d}'
        c.homes[m_] = home
        nq = f'{spell(home, style)} (select * from {m_} where x > 1)'
        if r.random() < 0.5:
            return f'SELECT * FROM {nq}', c
        other = r.choice([i for i in INTS if i != home])
        return f'SELECT a1.c, a2.c FROM {nq} AS a1 JOIN {c.tbl(other)} AS a2 ON a1.k = a2.k', c
    if kind == 'schema-named-like-integration':
        # (often the integration that is also the default namespace: naming it explicitly must change nothing)
        home = default_ns if default_ns in INTS and r.random() < 0.6 else r.choice(INTS)
        other = r.choice([i for i in INTS if i != home])
        # (the schema may also be spelled like the table's OWN integration: `int1.int1.t` is the table `int1.t` of int1)
        sch = r.choice([other, other, 'sch', 'mindsdb', 'proj', other.upper(), home, home])
        ts_ = c.tbl(home, schema=sch)
        if r.random() < 0.2:
            return f'SELECT a1.c FROM {ts_} AS a1 WHERE a1.k = 1', c
        t2 = c.tbl(r.choice([other, home, None]))
        return r.choice([
            f'SELECT a1.c, a2.c FROM {ts_} AS a1 JOIN {t2} AS a2 ON a1.k = a2.k WHERE a1.x > 1',
            f'SELECT a2.c FROM {t2} AS a2 WHERE a2.k IN (SELECT a1.c FROM {ts_} AS a1)',
            f'SELECT a2.c, a1.c FROM {t2} AS a2 JOIN {ts_} AS a1 ON a1.k = a2.k']), c
    if kind == 'same-int-join-foreign-sub':
        # every JOINED table lives in one integration; a sub-query outside FROM (WHERE / select list / CASE / function argument) reads
        # another integration: the statement as a whole is not that integration's
        home1 = r.choice(INTS)
        other = r.choice([i for i in INTS if i != home1])
        ta, tb = c.tbl(home1), c.tbl(home1)
        sub = f'SELECT s1.c FROM {c.tbl(other)} AS s1 WHERE s1.k > 1'
        frm = f'{ta} AS a1 {r.choice(["JOIN", "LEFT JOIN"])} {tb} AS a2 ON a1.k = a2.k'
        shape = r.randrange(4)
        if shape == 0:
            return f'SELECT a1.c, a2.c FROM {frm} WHERE a1.x IN ({sub})', c
        if shape == 1:
            return f'SELECT a1.c, ({sub} LIMIT 1) AS sc FROM {frm}', c
        if shape == 2:
            return f'SELECT CASE ({sub} LIMIT 1) WHEN 1 THEN a1.c ELSE a2.c END AS v FROM {frm}', c
        return f'SELECT coalesce(({sub} LIMIT 1), a2.c) AS v FROM {frm} WHERE a1.k = 1', c
    t1 = c.tbl()
    if kind == 'from':
        return f'SELECT a1.c FROM {t1} AS a1 WHERE a1.k = 1', c
    if kind == 'join':
        return f'SELECT a1.c, a2.c FROM {t1} AS a1 {r.choice(["JOIN", "LEFT JOIN"])} {c.tbl()} AS a2 ON a1.k = a2.k WHERE a1.x > 1', c
    if kind == 'join3':
        return (f'SELECT a1.c, a3.c FROM {t1} AS a1 JOIN {c.tbl()} AS a2 ON a1.k = a2.k LEFT JOIN {c.tbl()} AS a3 ON a2.k = a3.k '
                f'WHERE a2.x = 2'), c
    if kind == 'where-sub':
        return f'SELECT a1.c FROM {t1} AS a1 WHERE a1.k {r.choice(["IN", "NOT IN"])} ({c.sub("s1")})', c
    if kind in ('where-sub-join', 'target-sub-join'):
        # nested select whose FROM is itself a join that mixes the outer query's integration with another one
        outer_home = c.homes[t1.split('.')[1]]
        # (the partner may also be a view of a project: that is no table of any integration either)
        other = r.choice([i for i in INTS if i != outer_home] + ['proj2'])
        if other == 'proj2':
            c.uses_project = True
        inner = (f'SELECT s1.c FROM {c.tbl(outer_home)} AS s1 JOIN {c.tbl(other)} AS s2 ON s1.k = s2.k WHERE s2.x > 0')
        if kind == 'where-sub-join':
            return f'SELECT a1.c FROM {t1} AS a1 WHERE a1.k IN ({inner})', c
        return f'SELECT a1.c, ({inner} LIMIT 1) AS sc FROM {t1} AS a1', c
    if kind == 'target-sub':
        return f'SELECT a1.c, ({c.sub("s1")} LIMIT 1) AS sc FROM {t1} AS a1', c
    if kind == 'case-sub':
        return f'SELECT CASE ({c.sub("s1")} LIMIT 1) WHEN 1 THEN a1.c ELSE a1.k END AS v FROM {t1} AS a1', c
    if kind == 'func-sub':
        return f'SELECT coalesce(({c.sub("s1")} LIMIT 1), a1.c) AS v FROM {t1} AS a1 WHERE a1.k = 1', c
    if kind == 'cte':
        return f'WITH cte1 AS ({c.sub("s1")}) SELECT a1.c, cte1.c FROM {t1} AS a1 JOIN cte1 ON a1.k = cte1.c', c
    if kind == 'insert-select':
        return f'INSERT INTO {t1} (c, k) SELECT s1.c, s2.k FROM {c.tbl()} AS s1 JOIN {c.tbl()} AS s2 ON s1.k = s2.k', c
    if kind == 'update-from':
        return f'UPDATE {t1} SET c = s9.c FROM ({c.sub("s1")}) AS s9 WHERE k = s9.c', c
    if kind == 'delete-sub':
        return f'DELETE FROM {t1} WHERE k IN ({c.sub("s1")})', c
    if kind == 'union':
        return f'SELECT a1.c FROM {t1} AS a1 UNION SELECT a2.c FROM {c.tbl()} AS a2', c
    if kind == 'cte-named-like-foreign-table':
        # a CTE whose name is also the name of a real table of ANOTHER integration, which the statement reads by its full name
        home1 = c.homes[t1.split('.')[1]]
        other = r.choice([i for i in INTS if i != home1])
        t2 = c.tbl(other)
        name = t2.split('.')[1]
        form = r.choice(['from', 'where-sub', 'both'])
        if form == 'from':
            return f'WITH {name} AS (SELECT s1.c FROM {t1} AS s1 WHERE s1.k > 1) SELECT a1.c FROM {t2} AS a1', c
        if form == 'where-sub':
            return f'WITH {name} AS (SELECT s1.c FROM {t1} AS s1) SELECT a1.c FROM {c.tbl(home1)} AS a1 WHERE a1.k IN (SELECT x.c FROM {t2} AS x)', c
        return f'WITH {name} AS (SELECT s1.c FROM {t1} AS s1) SELECT a1.c, x.c FROM {t2} AS a1 JOIN {name} AS x ON a1.k = x.c', c
    # columns written with the full integration.table.column path (no alias)
    if kind == 'qualified-cols':
        return f'SELECT {t1}.c, {t1}.k AS kk FROM {t1} WHERE {t1}.k = 1 AND {t1}.x > 2 ORDER BY {t1}.c', c
    if kind == 'delete-qualified':
        return f'DELETE FROM {t1} WHERE {t1}.k = 5' + r.choice(['', f' AND {t1}.x IN (1, 2)', f' OR NOT {t1}.x = 3']), c
    if kind == 'update-qualified':
        return f'UPDATE {t1} SET c = 1 WHERE {t1}.k = 5', c
    # models
    proj = r.choice(['mindsdb', 'proj'])
    ver = r.choice([None, None, '3']) if kind != 'model-version' else r.choice(['3', '12'])
    mname = 'mdl_1'
    c.models[mname] = (proj, ver)
    mref = f'{spell(proj, style)}.{mname}' + (f'.{ver}' if ver else '')
    frm = f'{t1} AS a1'
    if kind == 'ts-model-join':
        # a time-series model: conditions on its partition column written column-first / value-first, qualified by the model's alias
        # or by the model's full name - none of that may reach the data integration
        c.ts_model = True
        full = f'{spell(proj, style)}.{mname}'
        cond = r.choice(["m.g = 'x'", "'x' = m.g", f"'x' = {full}.g", f"{full}.g = 'x'", "a1.g = 'x'", "'x' = a1.g"])
        tcond = r.choice(['a1.ts > LATEST', 'a1.ts > 5', '5 < a1.ts', 'm.ts > 5', '5 < m.ts'])
        if full in cond:
            return f'SELECT * FROM {t1} JOIN {mref} WHERE {t1}.ts > 5 AND {cond}', c
        return f'SELECT * FROM {frm} JOIN {mref} AS m WHERE {tcond} AND {cond}', c
    if kind == 'model-select':
        c.homes.clear()
        return f'SELECT * FROM {mref} WHERE x = 1', c
    if kind == 'model-sub-twice':
        v1, v2 = r.choice([('1', '2'), ('3', None), (None, '7'), ('2', '2')])
        c.models[mname] = (proj, [v1, v2])
        ref = lambda v: f'{spell(proj, style)}.{mname}' + (f'.{v}' if v else '')
        return (f'SELECT a1.c FROM {frm} WHERE a1.k = (SELECT y FROM {ref(v1)} WHERE x = 1) '
                f'AND a1.x = (SELECT y FROM {ref(v2)} WHERE x = 2)'), c
    if kind == 'model-twice':
        v1, v2 = r.choice([('1', '2'), ('3', None), (None, '7'), ('2', '2')])
        c.models[mname] = (proj, [v1, v2])
        ref = lambda v: f'{spell(proj, style)}.{mname}' + (f'.{v}' if v else '')
        return f'SELECT a1.c, m.y, m2.y FROM {frm} JOIN {ref(v1)} AS m JOIN {ref(v2)} AS m2 WHERE a1.k > 1', c
    if kind == 'model-2tables':
        frm += f' JOIN {c.tbl()} AS a2 ON a1.k = a2.k'
    return f'SELECT a1.c, m.y FROM {frm} JOIN {mref} AS m WHERE a1.k > 1', c


def model_metadata(case, variant=0):
    out = [{'name': m, 'integration_name': p, 'timeseries': False, 'to_predict': ['y']} for m, (p, v) in case.models.items()]
    if getattr(case, 'ts_model', False):
        for rec in out:
            rec.update({'timeseries': True, 'window': 2, 'order_by_column': 'ts', 'group_by_columns': ['g']})
    if variant or getattr(case, 'needs_zz', False):
        # a catalog with further models around the one the query uses; a model of the default project may leave its project out
        for rec in out:
            if rec['integration_name'] == 'mindsdb':
                del rec['integration_name']
            # keys of its own that a catalog record may carry (the version named in the STATEMENT decides, not these)
            rec.update({'version': '9', 'id': 17, 'active': True, 'engine': 'e', 'NAME': 'other'})
        out = ([{'name': 'zz_before', 'integration_name': 'proj', 'timeseries': False, 'to_predict': ['y']}] + out +
               [{'name': 'zz_after', 'integration_name': 'proj', 'timeseries': True, 'window': 2, 'order_by_column': 'ts', 'group_by_columns': []},
                {'name': 'zz_last', 'timeseries': False, 'to_predict': ['y']}])
    return out


def catalog(form, case, default_ns):
    ints = list(INTS)
    if form in (0, 3):
        integrations = list(ints)
    else:
        integrations = [{'name': n, 'type': 'data'} for n in ints]
        if form in (2, 4, 7):
            # (with `project.model` keys the legacy dict does not declare the project itself: form 7 declares it here)
            integrations.append({'name': 'proj', 'type': 'project'})
    if form == 6:
        # names and dicts mixed, names not in lower case
        integrations = ['INT1', {'name': 'Int2', 'type': 'data'}, 'int3', {'name': 'Proj', 'type': 'project'}, {'name': 'Außen4', 'type': 'data'},
                        'Files', {'name': 'VIEWS', 'type': 'data'}, 'M', {'name': 'S', 'type': 'data'}]
    if form == 9:
        integrations = [{'name': n, 'type': 'data'} for n in ints] + [{'name': 'proj', 'type': 'project'}, {'name': 'mindsdb', 'type': 'project'}]
    if getattr(case, 'uses_project', False):
        # the project of the statement's project tables: a dict entry of type 'project', its name in either case
        integrations = [({'name': x, 'type': 'data'} if isinstance(x, str) else x) for x in integrations]
        integrations.append({'name': 'Proj2' if form % 2 else 'proj2', 'type': 'project'})
    pm = model_metadata(case, variant=form in (1, 3, 4, 8))
    kw = {}
    if form in (3, 5):
        pm = {m['name']: m for m in pm}
    if form == 7:
        # legacy dict whose keys carry the project (`project.model`, lower case)
        pm = {(m.get('integration_name', 'mindsdb') + '.' + m['name']).lower(): m for m in pm}
    if form == 8:
        # the project is not stored with the model but given as the (legacy) predictor namespace
        projs = {m.get('integration_name', 'mindsdb') for m in pm if m['name'] in case.models}
        if len(projs) == 1:
            ns = projs.pop()
            pm = [dict((k, v) for k, v in m.items() if k != 'integration_name' or m['name'] not in case.models) for m in pm]
            kw['predictor_namespace'] = ns.upper()
    if form == 9 and not case.models:
        pm = None
    kw.update(integrations=integrations, predictor_metadata=pm)
    if default_ns:
        kw['default_namespace'] = default_ns
    return kw


MARK = re.compile(r'^(tb_\d+|mdl_\d+|zz_[a-z]+)$', re.I)


def markers_in(obj):
    """marker (lower) -> list of identifier part lists in which it occurs."""
    out = {}
    for path, o in monitors.walk(obj):
        if type(o).__name__ == 'Identifier':
            parts = [str(p) for p in o.parts]
            for p in parts:
                if MARK.match(p):
                    out.setdefault(p.lower(), []).append(parts)
    return out


def routing(plan):
    """Canonical routing map of a plan + list of raw observations per step."""
    rows = []
    for st in iter_steps(plan.steps):
        cls = type(st).__name__
        if cls == 'FetchDataframeStep':
            marks = markers_in(st.query) if st.query is not None else {}
            if st.query is None and getattr(st, 'raw_query', None):
                marks = {m_.lower(): [[m_]] for m_ in re.findall(r'\b(tb_\d+)\b', str(st.raw_query))}
            rows.append(('fetch', str(st.integration).lower(), marks))
            if str(st.integration) != str(st.integration).lower():
                # the planner keeps integration names in lower case (its catalog keys): a step must name the integration that way
                rows.append(('raw-integration-name', str(st.integration), {}))
        elif cls in ('InsertToTable', 'UpdateToTable', 'DeleteStep', 'SaveToTable', 'CreateTableStep'):
            rows.append(('dml:' + cls, [str(p) for p in st.table.parts], markers_in(getattr(st, 'where', None)) if cls == 'DeleteStep' else {}))
        elif cls.startswith('ApplyPredictor') or cls.startswith('ApplyTimeseries'):
            rows.append(('predict', str(st.namespace).lower(), [str(p) for p in st.predictor.parts]))
    return rows


def iter_steps(steps):
    for st in steps:
        yield st
        cls = type(st).__name__
        if cls == 'MapReduceStep':
            yield from iter_steps(st.step if isinstance(st.step, list) else [st.step])
        elif cls == 'MultipleSteps':
            yield from iter_steps(st.steps)


def canon(rows):
    out = []
    for r in rows:
        if r[0] == 'raw-integration-name':
            continue
        if r[0] == 'fetch':
            out.append(('fetch', r[1], tuple(sorted(r[2]))))
        elif r[0].startswith('dml'):
            out.append((r[0], tuple(p.lower() for p in r[1])))
        else:
            out.append(('predict', r[1], tuple(p.lower() for p in r[2])))
    return sorted(out)


def judge(case, rows, default_ns):
    out = []
    fetched = {}
    for r in rows:
        if r[0] == 'raw-integration-name':
            out.append(({'defect': 'step-names-integration-in-another-spelling'}, {'integration': r[1]}))
        if r[0] == 'fetch':
            integ, marks = r[1], r[2]
            for m, occ in marks.items():
                if m.startswith('mdl_'):
                    out.append(({'defect': 'model-shipped-to-integration'}, {'integration': integ, 'marker': m}))
                    continue
                home = case.homes.get(m)
                if home is None:
                    continue
                fetched.setdefault(m, set()).add(integ)
                if integ in getattr(case, 'twins', {}).get(m, ()):
                    home = integ            # a table of that name lives there too
                if integ != home:
                    out.append(({'defect': 'table-sent-to-wrong-integration'}, {'marker': m, 'home': home, 'sent_to': integ}))
                sch = case.schemas.get(m)
                for parts in occ:
                    if sch is not None:
                        # integration.schema.table: the integration goes, the schema stays (whatever it is spelled like)
                        pre = [x.lower() for x in parts[:[x.lower() for x in parts].index(m)]]
                        if pre == [home, sch.lower()]:
                            out.append(({'defect': 'qualifier-kept-in-pushed-query'}, {'marker': m, 'parts': parts, 'integration': integ}))
                        elif pre != [sch.lower()]:
                            out.append(({'defect': 'schema-part-lost-or-changed'}, {'marker': m, 'parts': parts, 'integration': integ, 'schema': sch}))
                    elif len(parts) > 1 and parts[0].lower() in INTS + ['mindsdb', 'proj', 'proj2']:
                        out.append(({'defect': 'qualifier-kept-in-pushed-query'}, {'marker': m, 'parts': parts, 'integration': integ}))
        elif r[0].startswith('dml'):
            parts = [p.lower() for p in r[1]]
            m = next((p for p in parts if MARK.match(p)), None)
            if m:
                fetched.setdefault(m, set()).add(parts[0] if len(parts) > 1 else (default_ns or '?'))
                home = case.homes.get(m)
                if len(parts) > 1 and parts[0] != home:
                    out.append(({'defect': 'dml-target-wrong-integration'}, {'marker': m, 'table': r[1]}))
            for m2, occ in r[2].items():
                for parts2 in occ:
                    if len(parts2) > 1 and parts2[0].lower() in INTS + ['mindsdb', 'proj', 'proj2']:
                        out.append(({'defect': 'qualifier-kept-in-pushed-query'}, {'marker': m2, 'parts': parts2, 'step': r[0]}))
                # tables inside the WHERE of a delete step are executed on the target's integration
                home = case.homes.get(m2)
                tgt_home = case.homes.get(m) if m else None
                if tgt_home:
                    fetched.setdefault(m2, set()).add(tgt_home)
                if home and tgt_home and home != tgt_home:
                    out.append(({'defect': 'foreign-table-in-dml-step'}, {'marker': m2, 'home': home, 'step_integration': tgt_home}))
    for m, home in case.homes.items():
        if m not in fetched:
            out.append(({'defect': 'table-never-fetched'}, {'marker': m, 'home': home}))
    for m, hs in getattr(case, 'twins', {}).items():
        for h_ in sorted(hs - fetched.get(m, set())):
            out.append(({'defect': 'table-never-fetched', 'twin': True}, {'marker': m, 'home': h_, 'fetched_from': sorted(fetched.get(m, set()))}))
    preds = [r for r in rows if r[0] == 'predict']
    for p in preds:
        for x in p[2]:
            if x.lower() in case.homes:
                out.append(({'defect': 'data-table-planned-as-model'}, {'marker': x, 'home': case.homes[x.lower()], 'namespace': p[1]}))
    for m, (proj, ver) in case.models.items():
        mine = [p for p in preds if m in [x.lower() for x in p[2]]]
        if not mine:
            out.append(({'defect': 'model-without-apply-step'}, {'model': m}))
            continue
        if isinstance(ver, list):
            # the same model referenced twice: one apply step per reference, versions in reference order
            got = [next((x for x in p[2] if x.isdigit()), None) for p in mine]
            if len(mine) != len(ver) or got != ver:
                out.append(({'defect': 'model-version-lost-or-invented'}, {'model': m, 'expected_versions': ver, 'got_versions': got}))
            for p in mine:
                if p[1] != proj:
                    out.append(({'defect': 'model-wrong-project'}, {'model': m, 'namespace': p[1], 'expected': proj}))
            continue
        for p in mine:
            if p[1] != proj:
                out.append(({'defect': 'model-wrong-project'}, {'model': m, 'namespace': p[1], 'expected': proj}))
            has_ver = [x for x in p[2] if x.isdigit()]
            if (ver and ver not in has_ver) or (not ver and has_ver):
                out.append(({'defect': 'model-version-lost-or-invented'}, {'model': m, 'predictor_parts': p[2], 'expected_version': ver}))
    return out


def run_name_coincidences(ctx):
    """Every pair (integration of the table, schema part) x every default namespace x two statement shapes: a schema, a table or a
    default namespace spelled like an integration / project must not move a table to another place."""
    from mindsdb_sql import parse_sql
    from mindsdb_sql.planner import plan_query
    from mindsdb_sql.exceptions import PlanningException
    acc = ctx.acc
    k = -1
    for home in INTS:
        for sch in INTS + ['sch', 'mindsdb', 'proj']:
            for default_ns in [None, 'mindsdb'] + INTS:
                for shape in ('join', 'where-sub', 'alone'):
                    k += 1
                    if not ctx.mine(k):
                        continue
                    r = core.rng_for(ctx.seed, 'C10coincide', k)
                    c = Case(r, 'lower')
                    ts_ = c.tbl(home, schema=sch)
                    other = r.choice([i for i in INTS if i != home])
                    if shape == 'alone':
                        text = f'SELECT a1.c FROM {ts_} AS a1 WHERE a1.k = 1'
                    elif shape == 'join':
                        text = f'SELECT a1.c, a2.c FROM {ts_} AS a1 JOIN {c.tbl(other)} AS a2 ON a1.k = a2.k WHERE a1.x > 1'
                    else:
                        text = f'SELECT a2.c FROM {c.tbl(other)} AS a2 WHERE a2.k IN (SELECT a1.c FROM {ts_} AS a1)'
                    c.positions.add('schema-named-like-integration')
                    for form in (k % 10, (k + 3) % 10):
                        acc.ev()
                        try:
                            tree = parse_sql(text, 'mindsdb')
                        except Exception:
                            acc.count('generator_text_rejected')
                            continue
                        try:
                            plan = plan_query(tree, **catalog(form, c, default_ns))
                        except (PlanningException, NotImplementedError):
                            acc.count('planning_rejections')
                            continue
                        except Exception:
                            acc.count('internal_error_is_C09')
                            continue
                        acc.count('name_coincidence_plans')
                        rows = routing(plan)
                        for sig, det in judge(c, rows, default_ns):
                            acc.fail(dict(sig, position='schema-named-like-integration', spelling='lower', default_namespace_is=('the-table-integration' if default_ns == home else 'the-schema-name' if default_ns == sch else 'other')),
                                     dict(det, text=text, catalog_form=form, default_namespace=default_ns, routing=[repr(x)[:160] for x in rows][:8]))


def run_shard(ctx):
    from mindsdb_sql import parse_sql
    from mindsdb_sql.planner import plan_query
    from mindsdb_sql.planner.query_planner import QueryPlanner
    from mindsdb_sql.exceptions import PlanningException
    acc = ctx.acc
    run_name_coincidences(ctx)
    n = 1500 if ctx.tier == 'quick' else 60000
    styles = ['lower', 'upper', 'cap']
    for i in range(n):
        if not ctx.mine(i):
            continue
        if ctx.out_of_time():
            acc.notes.append(f'shard {ctx.shard}: time budget hit at {i}')
            break
        base_seed = core.digest(ctx.seed, 'C10', i)
        kind = None
        form0 = i % 10
        default_ns = [None, 'mindsdb', 'int1'][i % 3]
        maps = {}
        for style in styles:
            r = core.rng_for(base_seed, 'shape')        # same shape, different qualifier spelling
            text, case = build(r, style, kind, default_ns)
            for form in ({form0, (form0 + 3) % 10, (form0 + 7) % 10} if style == 'lower' else {form0}):
                acc.ev()
                try:
                    q = parse_sql(text, 'mindsdb')
                except Exception:
                    acc.count('generator_text_rejected')
                    continue
                try:
                    plan = plan_query(q, **catalog(form, case, default_ns))
                except (PlanningException, NotImplementedError) as e:
                    acc.count('planning_rejections')
                    maps[(style, form)] = ('rejected', type(e).__name__)
                    continue
                except Exception as e:
                    acc.count('internal_error_is_C09')
                    continue
                acc.count('plans_checked')
                if case.models:
                    acc.count('model_queries')
                acc.add('positions', next(iter(case.positions)))
                acc.add('spellings', style)
                acc.add('catalog_forms', form)
                if len(case.homes) + len(case.models) >= 2:
                    acc.key(text, form)
                rows = routing(plan)
                maps[(style, form)] = canon(rows)
                pos = next(iter(case.positions))
                verdicts = judge(case, rows, default_ns)
                if verdicts and pos == 'cte-named-like-foreign-table':
                    # executable models of the two listed mechanisms (C10-F1 / C10-F2); a complaint they do not reproduce stays as it is
                    stripped = copy.deepcopy(plan)
                    for st2 in iter_steps(stripped.steps):
                        if type(st2).__name__ == 'FetchDataframeStep' and getattr(st2.query, 'cte', None) is not None:
                            st2.query.cte = None
                    name = re.search(r'WITH (\w+) AS', text).group(1).lower()
                    clash = default_ns is not None and case.homes.get(name) == default_ns
                    about_name = lambda vs: [v_ for v_ in vs if v_[1].get('marker') == name]
                    rest = [v_ for v_ in verdicts if v_ not in about_name(verdicts)] if clash else verdicts
                    rest_after = judge(case, routing(stripped), default_ns)
                    rest_after = [v_ for v_ in rest_after if v_ not in about_name(rest_after)] if clash else rest_after
                    if not rest_after:
                        # every complaint is about the clashing name (F2) or disappears once the WITH clause is not shipped (F1)
                        out_v = []
                        if clash and about_name(verdicts):
                            out_v.append(({'defect': 'cte-shadows-default-namespace-table'}, about_name(verdicts)[0][1]))
                        if rest:
                            out_v.append(({'defect': 'cte-definition-shipped-with-fetch'}, rest[0][1]))
                        verdicts = out_v
                for sig, det in verdicts:
                    sig = dict(sig, position=pos, spelling=style if style == 'lower' else 'non-lower')
                    det.update({'text': text, 'catalog_form': form, 'default_namespace': default_ns,
                                'routing': [repr(x)[:160] for x in rows][:10]})
                    acc.fail(sig, det)
                if len(acc.samples) < 5 and i % 17 == 0 and style == 'lower':
                    acc.sample({'text': text, 'homes': case.homes, 'models': case.models, 'routing': [repr(x)[:120] for x in canon(rows)]})
        # one planner object planning several statements in a row (from_query resets the plan, so this is a supported
        # use): every plan must route exactly as a fresh planner routes the same statement
        if i % 2 == 0:
            r = core.rng_for(base_seed, 'shape')
            text, case = build(r, 'lower', kind)
            seq = [text]
            if case.models:
                for v in ('5', None, '7'):
                    seq.append(re.sub(r'(mdl_1)(\.\d+)?', lambda m: 'mdl_1' + ('.' + v if v else ''), text))
            else:
                r2 = core.rng_for(base_seed, 'other')
                other, case2 = build(r2, 'lower', r2.choice(['from', 'join', 'where-sub', 'cte', 'union', 'delete-qualified', 'qualified-cols']))
                seq.append(other)
            seq.append(text)
            if i % 8 == 0:
                # an earlier statement's CTE named like a table that later statements read through the default namespace
                ns = default_ns if default_ns in INTS else 'int1'
                oth = [x for x in INTS if x != ns]
                seq = [f'WITH tb_90 AS (SELECT s1.c FROM {oth[0]}.tb_91 AS s1 WHERE s1.k > 1) SELECT a1.c FROM tb_90 AS a1 JOIN {oth[1]}.tb_92 AS a2 ON a1.c = a2.k',
                       f'SELECT a1.c FROM tb_90 AS a1 JOIN {oth[0]}.tb_93 AS a2 ON a1.k = a2.k',
                       f'SELECT a1.c FROM {ns}.tb_90 AS a1 WHERE a1.k IN (SELECT s1.c FROM {oth[1]}.tb_94 AS s1)',
                       f'SELECT a1.c FROM tb_90 AS a1 UNION SELECT a2.c FROM {oth[0]}.tb_95 AS a2'] + seq
                kw_ns = ns
                # the CTE's name is this case's own (no earlier statement of the process has used it): what the later statements route to
                # BEFORE the WITH statement has ever been planned is the reference for after it - also for a fresh planner (state kept
                # at module level outlives planner objects)
                seq = [x.replace('tb_90', f'tb_90x{i}') for x in seq]
                pre = {}
                try:
                    kw0 = catalog(form0, case, kw_ns)
                    for vt in seq[1:4]:
                        try:
                            pre[vt] = canon(routing(plan_query(parse_sql(vt, 'mindsdb'), **kw0)))
                        except (PlanningException, NotImplementedError) as e:
                            pre[vt] = ('rejected', type(e).__name__)
                        except Exception as e:
                            pre[vt] = ('internal-error', type(e).__name__)
                except Exception:
                    pre = {}
            else:
                kw_ns = default_ns
                pre = {}
            kw = catalog(form0, case, kw_ns)
            try:
                planner = QueryPlanner(**kw)
            except Exception:
                planner = None
            for k, vt in enumerate(seq if planner is not None else []):
                acc.ev()
                outs = []
                for how in ('fresh', 'reused'):
                    try:
                        q = parse_sql(vt, 'mindsdb')
                        plan = plan_query(q, **kw) if how == 'fresh' else planner.from_query(q)
                        outs.append(canon(routing(plan)))
                    except (PlanningException, NotImplementedError) as e:
                        outs.append(('rejected', type(e).__name__))
                    except Exception as e:
                        outs.append(('internal-error', type(e).__name__))
                acc.count('reuse_compared')
                if vt in pre:
                    acc.count('compared_with_routing_before_the_cte_statement')
                    if outs[0] != pre[vt]:
                        acc.fail({'defect': 'routing-depends-on-statements-planned-earlier-in-the-process', 'position': 'table-named-like-an-earlier-cte'},
                                 {'sequence': seq[:k + 1], 'before': repr(pre[vt])[:400], 'after': repr(outs[0])[:400], 'default_namespace': kw_ns})
                        break
                if outs[0] != outs[1]:
                    acc.fail({'defect': 'routing-depends-on-planner-history', 'position': next(iter(case.positions))},
                             {'sequence': seq[:k + 1], 'fresh': repr(outs[0])[:400], 'reused': repr(outs[1])[:400], 'default_namespace': default_ns})
                    break
        # metamorphic: same routing whatever the spelling / catalog form
        vals = list(maps.items())
        for (k1, v1), (k2, v2) in zip(vals, vals[1:]):
            acc.count('metamorphic_pairs')
            if v1 != v2:
                axis = 'spelling' if k1[0] != k2[0] else 'catalog-form'
                acc.fail({'defect': 'routing-depends-on-' + axis, 'position': next(iter(case.positions))},
                         {'text': text, 'a': [k1, repr(v1)[:300]], 'b': [k2, repr(v2)[:300]], 'default_namespace': default_ns})
                break


def replay(path):
    import json
    w = json.load(open(path))
    print(json.dumps(w, indent=1)[:3000])
    return 1
