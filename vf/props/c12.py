"""C12 - prepared statements bind placeholders in textual order, like inline literals.

Workload: statements with `?` in every expression position of the property's list; the i-th placeholder gets the
unique value 1001+i, so a mis-binding identifies itself.  Monitor: boundary of QueryPlanner.prepare_steps /
get_statement_info / execute_steps (with a fake executor answering column-discovery steps) and of
planner.utils.get_query_params / fill_query_params.  Oracle: the plan of the same text with the values written in
place of the placeholders (substitution done on the text by the generator); reflective struct equality of the step
lists; n parameters reported; a wrong value count raises PlanningException."""
import copy

from vf import core, monitors

ID = 'C12'
LEVEL = 'exploration'
TECHNIQUE = 'runtime monitor on prepare/execute call sequences with unique marker values; reference = planning the textually substituted statement; struct comparison'
RULE = ('statement templates with 1-6 placeholders over positions {select list, WHERE, ON, CASE operand and branches, function FROM-argument, '
        'IN list, BETWEEN, sub-selects on either side of a join, INSERT values, INSERT..SELECT, UPDATE SET and WHERE, DELETE, GROUP/HAVING/ORDER, '
        'UNION branches, CTE}, random composition; call histories prepare->execute, prepare->info->execute, execute with n-1 / n+1 values, '
        'prepare twice, second execute; non-trivial = >= 2 placeholders; distinct by (statement, history)')
RULE += "; also: bind values of mixed types (digit strings, floats, 0, '', negative), literal first VALUES rows, rejection at the call, execute - prepare another - read"
ASSUMPTIONS = ['textual order = order of the `?` characters in the statement text',
               'column-discovery steps of prepare_steps are answered by a fake executor with a fixed column list']
BUDGET = {'quick': (8, 240), 'thorough': (16, 1800)}

TEMPLATES = [
    ('select-list', 'SELECT {P}, a, {P} AS x FROM int1.t1'),
    ('where', 'SELECT a FROM int1.t1 WHERE a = {P} AND b > {P} OR c < {P}'),
    ('in-list', 'SELECT a FROM int1.t1 WHERE a IN ({P}, {P}, {P}) AND b = {P}'),
    ('between', 'SELECT a FROM int1.t1 WHERE a BETWEEN {P} AND {P} AND b = {P}'),
    ('case-operand', 'SELECT CASE {P} WHEN {P} THEN {P} ELSE {P} END AS c FROM int1.t1 WHERE a = {P}'),
    ('case-branches', 'SELECT CASE WHEN a = {P} THEN {P} WHEN b = {P} THEN {P} ELSE {P} END AS c FROM int1.t1'),
    ('func-from', 'SELECT substring(name FROM {P} FOR {P}), extract({P} FROM {P}) FROM int1.t1 WHERE a = {P}'),
    ('func-args', 'SELECT coalesce(a, {P}), f({P}, b, {P}) FROM int1.t1'),
    ('on', 'SELECT t.a FROM int1.t1 AS t JOIN int1.t2 AS u ON t.id = u.id AND u.x = {P} WHERE t.a = {P}'),
    ('join-subselects', 'SELECT s1.a FROM (SELECT a, id FROM int1.t1 WHERE b = {P}) AS s1 JOIN (SELECT id FROM int1.t2 WHERE c = {P}) AS s2 ON s1.id = s2.id WHERE s1.a > {P}'),
    ('join-subselects-2int', 'SELECT s1.a FROM (SELECT a, id FROM int1.t1 WHERE b = {P}) AS s1 JOIN (SELECT id FROM int2.t2 WHERE c = {P}) AS s2 ON s1.id = s2.id WHERE s1.a > {P}'),
    ('where-subselect', 'SELECT a FROM int1.t1 WHERE a = {P} AND b IN (SELECT x FROM int1.t2 WHERE y = {P}) AND c = {P}'),
    ('where-subselect-2int', 'SELECT a FROM int1.t1 WHERE a = {P} AND b IN (SELECT x FROM int2.t2 WHERE y = {P}) AND c = {P}'),
    ('group-having-order', 'SELECT a, count(b) FROM int1.t1 WHERE c = {P} GROUP BY a HAVING count(b) > {P} ORDER BY a LIMIT 5'),
    ('insert-values', 'INSERT INTO int1.t1 (a, b, c) VALUES ({P}, {P}, {P}), ({P}, 7, {P})'),
    ('insert-values-later-rows', 'INSERT INTO int1.t1 (a, b, c) VALUES (1, 2, 3), ({P}, 7, {P}), (4, 5, 6), (8, {P}, 9)'),
    ('insert-values-last-row', "INSERT INTO int1.t1 (a, b) VALUES (1, 'x'), (2, 'y'), (3, {P})"),
    ('insert-select', 'INSERT INTO int1.t1 (a, b) SELECT x, {P} FROM int1.t2 WHERE y = {P}'),
    # placeholders INSIDE the expressions of a VALUES row (not the row values themselves), with and without a column list
    ('insert-values-nested', 'INSERT INTO int1.t1 (a, b, c) VALUES ({P}, lower({P}), {P} + 1), (CAST({P} AS int), 7, abs({P}))'),
    ('insert-values-nested-nocols', 'INSERT INTO int1.t1 VALUES (f({P}, {P}), {P})'),
    ('update', 'UPDATE int1.t1 SET a = {P}, b = {P} WHERE c = {P}'),
    ('update-expr', 'UPDATE int1.t1 SET a = a + {P}, b = f({P}) WHERE c = {P} AND d IN ({P}, {P})'),
    # UPDATE .. FROM (sub-select): placeholders in SET, inside the sub-select and in WHERE, in that textual order
    ('update-from', 'UPDATE int2.t2 SET a = {P}, b = s.a + {P} FROM (SELECT p.id, p.a FROM int1.t1 AS p WHERE p.a > {P} AND p.c = {P}) AS s WHERE t2.id = s.id AND t2.d = {P}'),
    ('update-from-set-only', 'UPDATE int2.t2 SET a = {P} FROM (SELECT p.id FROM int1.t1 AS p WHERE p.a > {P}) AS s WHERE t2.id = s.id'),
    ('case-same-conditions', 'SELECT CASE WHEN a >= {P} THEN {P} WHEN a >= {P} THEN {P} WHEN a >= {P} THEN {P} ELSE {P} END AS c FROM int1.t1'),
    ('repeated-subexpressions', 'SELECT coalesce({P}, {P}), a = {P} OR a = {P}, {P} + {P} FROM int1.t1 WHERE b = {P} AND b = {P} AND c IN ({P}, {P})'),
    ('update-unsorted', 'UPDATE int1.t1 SET c = {P}, a = {P}, b = {P}, Z = {P}, aa = {P} WHERE d = {P}'),
    ('insert-unsorted', 'INSERT INTO int1.t1 (c, a, b) VALUES ({P}, {P}, {P})'),
    ('select-unsorted', 'SELECT {P} AS z, {P} AS a, {P} AS m FROM int1.t1 WHERE y = {P} AND b = {P} ORDER BY z'),
    ('delete', 'DELETE FROM int1.t1 WHERE a = {P} AND b > {P}'),
    ('union', 'SELECT a FROM int1.t1 WHERE b = {P} UNION SELECT a FROM int1.t2 WHERE c = {P}'),
    ('union-2int', 'SELECT a FROM int1.t1 WHERE b = {P} UNION ALL SELECT a FROM int2.t2 WHERE c = {P}'),
    ('cte', 'WITH c1 AS (SELECT a FROM int1.t1 WHERE b = {P}) SELECT a FROM c1 WHERE a > {P}'),
    ('tuple-cast', 'SELECT CAST({P} AS int), (a, {P}) FROM int1.t1 WHERE -a = {P} AND NOT b = {P}'),
    ('window', 'SELECT sum(a) OVER (PARTITION BY b ORDER BY c) FROM int1.t1 WHERE d = {P} AND e = {P}'),
    ('model-join', 'SELECT t.a, m.p FROM int1.t1 AS t JOIN mindsdb.pred AS m WHERE t.b = {P} AND m.x = {P} AND t.c > {P}'),
    ('model-select', 'SELECT p FROM mindsdb.pred WHERE x1 = {P} AND x2 = {P}'),
    ('limit-like', "SELECT a FROM int1.t1 WHERE name LIKE {P} AND b IS NOT NULL AND c != {P}"),
]
CATALOG = dict(integrations=['int1', 'int2'], predictor_metadata=[{'name': 'pred', 'integration_name': 'mindsdb', 'timeseries': False}],
               default_namespace='mindsdb')
COLS = [{'name': n, 'type': 'int'} for n in ('id', 'a', 'b', 'c', 'd', 'e', 'x', 'y', 'name', 'p', 'x1', 'x2')]


def floors(tier):
    return {'histories_checked': 800, 'len:templates': 32, 'wrong_count_calls': 150, 'fill_checks': 400}


def instantiate(tmpl, mixed=False):
    """(text with ?, the same text with the values written inline, values).  mixed: unique values of several types -
    digit-only strings (with a leading zero, with a non-decimal digit), plain strings, floats, negative numbers."""
    n = tmpl.count('{P}')
    q = tmpl.replace('{P}', '?')
    if not mixed:
        vals = [1001 + i for i in range(n)]
        lits = [str(x) for x in vals]
    else:
        vals, lits = [], []
        for i in range(n):
            k = i % 10
            x = [f'0{2001 + i}', 3001.5 + i, f's{i}x', f'{4001 + i}', 5001 + i, f'{i}\u00b2', 0, '', -(6001 + i), f'x{i} y'][k]
            if i % 7 == 3:
                x = None        # a NULL among the values: bound like any other literal (alias and parentheses of the placeholder stay)
            if i % 7 == 5:
                x = bool(i % 2)         # TRUE / FALSE are their own literals, not 1 / 0
            vals.append(x)
            lits.append('NULL' if x is None else ('TRUE' if x else 'FALSE') if isinstance(x, bool) else "'" + x + "'" if isinstance(x, str) else str(x))
    v = tmpl
    for lit in lits:
        v = v.replace('{P}', lit, 1)
    return q, v, vals


def compose(r):
    """Random statement built from fragments with placeholders (beyond the fixed templates)."""
    conj = r.sample(['a = {P}', 'b IN ({P}, {P})', 'c BETWEEN {P} AND {P}', 'd > {P} + 1', 'f({P}) = e', 'NOT x = {P}', '(y = {P} OR y = {P})',
                     'a IN (SELECT x FROM int1.t2 WHERE y = {P})', 'CASE {P} WHEN 1 THEN a ELSE {P} END = 2'], r.randint(1, 3))
    tg = r.sample(['a', '{P} AS k', 'b + {P}', 'coalesce(c, {P})', 'CASE WHEN d = {P} THEN {P} END'], r.randint(1, 3))
    # every clause may carry placeholders, in any combination (select list + FROM sub-select + ON + WHERE + HAVING + ORDER BY, after a CTE)
    frm = r.choice(['int1.t1', 'int1.t1', 'int1.t1 AS t', '(SELECT a, b, c, d, e, x, y FROM int1.t1 WHERE b = {P}) AS s',
                    '(SELECT a, b, c, d, e, x, y FROM int1.t1 WHERE b = {P} AND c IN ({P}, {P})) AS s',
                    'int1.t1 AS t JOIN int1.t2 AS u ON t.id = u.id AND u.x = {P}',
                    'int1.t1 AS t LEFT JOIN int1.t2 AS u ON u.x = {P} AND t.id = u.id JOIN int1.t3 AS v ON v.id = t.id AND v.z > {P}',
                    '(SELECT a, b, c, d, e, x, y, id FROM int1.t1 WHERE b = {P}) AS s JOIN (SELECT id FROM int1.t2 WHERE c = {P}) AS s2 ON s.id = s2.id',
                    'int1.t1 AS t JOIN (SELECT id FROM int1.t2 WHERE c = {P}) AS s2 ON t.id = s2.id AND s2.id > {P}'])
    s = f'SELECT {", ".join(tg)} FROM {frm} WHERE ' + ' AND '.join(conj)
    k = r.random()
    if k < 0.3:
        s += ' ORDER BY a LIMIT 3'
    elif k < 0.5:
        s += ' GROUP BY a HAVING count(b) > {P}' + r.choice(['', ' ORDER BY a', ' ORDER BY coalesce(a, {P})'])
    elif k < 0.6:
        s += ' ORDER BY b + {P}, a'
    if r.random() < 0.2:
        s = 'WITH c9 AS (SELECT a FROM int1.t2 WHERE y = {P}) ' + s
    elif r.random() < 0.15:
        s = s + ' UNION ' + r.choice(['SELECT {P} FROM int1.t2 WHERE y = {P}', 'SELECT a FROM (SELECT a FROM int1.t2 WHERE y = {P}) AS z'])
    return ('composed', s)


class FakeExecutor:
    def answer(self, step):
        cls = type(step).__name__
        if cls == 'GetTableColumns':
            alias = ('int', str(step.table), str(step.table))
            return {'values': [], 'columns': {alias: COLS}, 'tables': [alias]}
        if cls == 'GetPredictorColumns':
            name = str(step.predictor.parts[-1])
            alias = ('int', name, name)
            return {'values': [], 'columns': {alias: COLS}, 'tables': [alias]}
        return [{'id': 1}]


def reference_steps(text_v):
    from mindsdb_sql import parse_sql
    from mindsdb_sql.planner import QueryPlanner
    pl = QueryPlanner(**copy.deepcopy(CATALOG))
    ex = FakeExecutor()
    q = parse_sql(text_v, 'mindsdb')
    for st in pl.prepare_steps(q):
        st.set_result(ex.answer(st))
    steps = []
    for st in pl.execute_steps([]):
        steps.append(st)
    return steps


def same_null(x):
    """A NULL bound at execute time is a Constant holding None, a NULL written in the text a NullConstant: the same literal."""
    if isinstance(x, dict):
        if x.get('__class__') == 'Constant' and isinstance(x.get('fields'), dict) and x['fields'].get('value') is None:
            x = dict(x, __class__='NullConstant')
        return {k: same_null(v) for k, v in x.items()}
    if isinstance(x, (list, tuple)):
        return type(x)(same_null(v) for v in x)
    return x


def strip_results(steps):
    for s in steps:
        if hasattr(s, 'result_data'):
            try:
                del s.result_data
            except Exception:
                pass
    return steps


OTHER_Q = 'SELECT zz.x FROM int1.t9 AS zz WHERE zz.y = ?'
OTHER_V = 'SELECT zz.x FROM int1.t9 AS zz WHERE zz.y = 777001'


def run_history(text_q, text_v, vals, history):
    """Returns list of (sig, detail); history is a label of the call sequence to run."""
    from mindsdb_sql import parse_sql
    from mindsdb_sql.planner import QueryPlanner
    from mindsdb_sql.exceptions import PlanningException
    out = []
    n = len(vals)
    ex = FakeExecutor()
    pl = QueryPlanner(**copy.deepcopy(CATALOG))
    q = parse_sql(text_q, 'mindsdb')
    try:
        for st in pl.prepare_steps(q):
            st.set_result(ex.answer(st))
        if history == 'prepare-twice':
            for st in pl.prepare_steps(parse_sql(text_q, 'mindsdb')):
                st.set_result(ex.answer(st))
    except (PlanningException, NotImplementedError) as e:
        return 'prepare-rejected', out
    info = pl.get_statement_info()
    if len(info['parameters']) != n:
        out.append(({'defect': 'parameter-count', 'reported': 'fewer' if len(info['parameters']) < n else 'more'},
                    {'reported': len(info['parameters']), 'expected': n}))
    if history in ('too-few', 'too-many'):
        bad = vals[:-1] if history == 'too-few' else vals + [9999]
        try:
            handle = pl.execute_steps(bad)          # the rejection belongs to the call, not to whoever iterates the result
            try:
                list(handle)
                out.append(({'defect': 'wrong-count-accepted', 'history': history}, {'given': len(bad), 'expected': n}))
            except PlanningException:
                out.append(({'defect': 'wrong-count-rejected-only-when-iterated', 'history': history}, {'given': len(bad), 'expected': n}))
        except PlanningException:
            pass
        except Exception as e:
            out.append(({'defect': 'wrong-count-other-exception', 'history': history, 'etype': type(e).__name__}, {'error': str(e)[:200]}))
        if len(info['parameters']) != n:
            return 'checked', out
        # after the rejected attempt the statement must still execute correctly with the right values
    try:
        if history == 'interleaved-prepare':
            # execute A, prepare another statement on the same planner before A's steps are read, then read them
            handle = pl.execute_steps(list(vals))
            for st in pl.prepare_steps(parse_sql(OTHER_Q, 'mindsdb')):
                st.set_result(ex.answer(st))
            got = strip_results(list(handle))
            try:
                got_b = strip_results(list(pl.execute_steps([777001])))
                ref_b = strip_results(reference_steps(OTHER_V))
                if same_null(monitors.struct(got_b)) != same_null(monitors.struct(ref_b)):
                    out.append(({'defect': 'later-statement-bound-differently', 'history': history},
                                {'got': [repr(s)[:200] for s in got_b][:4], 'expected': [repr(s)[:200] for s in ref_b][:4]}))
            except (PlanningException, NotImplementedError) as e:
                out.append(({'defect': 'later-statement-rejected', 'history': history}, {'error': str(e)[:200]}))
        else:
            handed = list(vals)
            got = strip_results(list(pl.execute_steps(handed)))
            # the values are the caller's: the list handed in is as it was (a caller executes again with it, or shares it)
            if len(handed) != len(vals) or any(a is not b and not (type(a) is type(b) and a == b) for a, b in zip(handed, vals)):
                out.append(({'defect': 'value-list-handed-in-was-changed', 'history': history}, {'handed_after': repr(handed)[:200], 'values': repr(list(vals))[:200]}))
    except (PlanningException, NotImplementedError) as e:
        if len(info['parameters']) != n:
            return 'checked', out       # consequence of the mis-count already reported
        try:
            reference_steps(text_v)
        except (PlanningException, NotImplementedError):
            return 'both-rejected', out
        out.append(({'defect': 'execute-rejected-but-inline-plans', 'history': history}, {'error': str(e)[:200]}))
        return 'checked', out
    try:
        ref = strip_results(reference_steps(text_v))
    except (PlanningException, NotImplementedError) as e:
        out.append(({'defect': 'execute-plans-but-inline-rejected', 'history': history}, {'error': str(e)[:200]}))
        return 'checked', out
    sa, sb = same_null(monitors.struct(got)), same_null(monitors.struct(ref))
    if sa != sb:
        # which value went where: look for the marker values in both
        from vf.props.c01 import first_diff
        left = ':?' in repr([repr(s) for s in got]) or 'Parameter' in core.canon(sa)
        out.append(({'defect': 'placeholder-left-unbound' if left else 'bound-differently-from-inline', 'history': 'after-rejected-execute' if history in ('too-few', 'too-many') else 'plain'},
                    {'diff': first_diff(sb, sa)[:200], 'got': [repr(s)[:200] for s in got][:6], 'expected': [repr(s)[:200] for s in ref][:6]}))
    if history == 'second-execute':
        try:
            again = list(pl.execute_steps(list(vals)))
            if same_null(monitors.struct(strip_results(again))) != sb:
                out.append(({'defect': 'second-execute-differs'}, {}))
        except PlanningException:
            pass
        except Exception as e:
            out.append(({'defect': 'second-execute-internal-error', 'etype': type(e).__name__}, {'error': str(e)[:200]}))
    return 'checked', out


def run_large(ctx):
    """Bulk statements: the number of placeholders at and around the sizes where a count stops fitting a byte / two bytes.  Every one
    of them is reported and bound, in order (the statement says `any statement containing n placeholders`)."""
    from mindsdb_sql import parse_sql
    from mindsdb_sql.planner.query_planner import QueryPlanner
    from mindsdb_sql.exceptions import PlanningException
    acc = ctx.acc
    shapes = [(51, 5), (85, 3), (256, 1), (257, 1), (819, 5), (13107, 5), (21845, 3), (13108, 5)]
    for rows, cols in shapes:
        n = rows * cols
        names = ', '.join('abcde'[:cols])
        sql = f'INSERT INTO int1.t1 ({names}) VALUES ' + ', '.join(['(' + ', '.join(['?'] * cols) + ')'] * rows)
        acc.ev()
        acc.count('large_statements_checked')
        try:
            q = parse_sql(sql, 'mindsdb')
            pl = QueryPlanner(q, integrations=['int1'])
            for _ in pl.prepare_steps(q):
                pass
            reported = len(pl.get_statement_info()['parameters'])
            vals = list(range(1001, 1001 + n))
            steps = list(pl.execute_steps(list(vals)))
            got = [getattr(c, 'value', c) for st in steps for row in (getattr(getattr(st, 'query', None), 'values', None) or []) for c in row]
        except (PlanningException, NotImplementedError) as e:
            acc.fail({'defect': 'large-statement-rejected', 'placeholders': n, 'position': 'insert-values-bulk'}, {'error': str(e)[:200], 'rows': rows, 'cols': cols})
            continue
        if reported != n:
            acc.fail({'defect': 'parameter-count', 'placeholders': n, 'position': 'insert-values-bulk'}, {'reported': reported})
        elif got != vals:
            bad = next((i for i, (a, b) in enumerate(zip(got, vals)) if a != b), min(len(got), len(vals)))
            acc.fail({'defect': 'bound-differently-from-inline', 'placeholders': n, 'position': 'insert-values-bulk'},
                     {'first_difference_at': bad, 'got_len': len(got), 'got': repr(got[max(0, bad - 2):bad + 3])})


def run_shard(ctx):
    from mindsdb_sql import parse_sql
    from mindsdb_sql.planner import utils as putils
    acc = ctx.acc
    cases = list(TEMPLATES)
    r = ctx.sub_rng('compose')
    for _ in range(900 if ctx.tier == 'quick' else 30000):
        cases.append(compose(r))
    histories = ['plain', 'plain', 'too-few', 'too-many', 'prepare-twice', 'second-execute', 'interleaved-prepare']
    if ctx.shard == 0:
        run_large(ctx)
    idx = -1
    for ci, (label, tmpl) in enumerate(cases):
        for hi, h in enumerate(histories if label != 'composed' else [histories[ci % len(histories)], 'plain']):
            # the second plain run binds values of mixed types
            text_q, text_v, vals = instantiate(tmpl, mixed=(h == 'plain' and hi == 1))
            idx += 1
            if not ctx.mine(idx):
                continue
            if ctx.out_of_time():
                return
            acc.ev()
            try:
                outcome, fails = run_history(text_q, text_v, vals, h)
            except Exception as e:
                c = monitors.classify_exception(e)
                if c['file'].startswith('mindsdb_sql'):
                    acc.fail({'defect': 'internal-error', 'etype': c['etype'], 'func': c['func']}, {'text': text_q, 'history': h, 'error': str(e)[:200]})
                    continue
                raise
            acc.count('outcome:' + outcome)
            if outcome == 'checked':
                acc.count('histories_checked')
                acc.add('templates', label if label != 'composed' else 'composed')
                if h in ('too-few', 'too-many'):
                    acc.count('wrong_count_calls')
                if len(vals) >= 2:
                    acc.key(text_q, h)
            for sig, det in fails:
                sig = dict(sig, position=label)
                det.update({'text': text_q, 'inline': text_v, 'history': h})
                acc.fail(sig, det)
            if not fails and outcome == 'checked' and len(acc.samples) < 5 and idx % 7 == 0:
                acc.sample({'text': text_q, 'values': vals, 'history': h, 'plan_equals_inline_plan': True})
        text_q, text_v, vals = instantiate(tmpl, mixed=(ci % 2 == 1))
        # the two halves separately
        if ctx.mine(ci):
            try:
                t = parse_sql(text_q, 'mindsdb')
                ps = putils.get_query_params(t)
                acc.count('fill_checks')
                if len(ps) != len(vals):
                    acc.fail({'defect': 'get_query_params-count', 'position': label, 'reported': 'fewer' if len(ps) < len(vals) else 'more'},
                             {'text': text_q, 'found': len(ps), 'expected': len(vals)})
                else:
                    filled = putils.fill_query_params(parse_sql(text_q, 'mindsdb'), list(vals))
                    ref = parse_sql(text_v, 'mindsdb')
                    if same_null(monitors.struct(filled)) != same_null(monitors.struct(ref)):
                        from vf.props.c01 import first_diff
                        acc.fail({'defect': 'fill_query_params-differs-from-inline', 'position': label},
                                 {'text': text_q, 'filled': filled.to_string()[:300], 'inline': text_v, 'diff': first_diff(same_null(monitors.struct(ref)), same_null(monitors.struct(filled)))[:160]})
            except Exception as e:
                c = monitors.classify_exception(e)
                if c['file'].startswith('mindsdb_sql'):
                    acc.fail({'defect': 'internal-error', 'etype': c['etype'], 'func': c['func'], 'position': label}, {'text': text_q, 'error': str(e)[:200]})


def replay(path):
    import json
    w = json.load(open(path))
    bad = 0
    for wit in w['witnesses']:
        q, v = wit['text'], wit.get('inline')
        vals = [1001 + i for i in range(q.count('?'))]
        o, f = run_history(q, v, vals, wit.get('history', 'plain'))
        print(q, o, [s for s, d in f])
        bad += bool(f)
    return 1 if bad else 0
