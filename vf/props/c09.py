"""C09 - every emitted plan is a well-formed, forward-only dataflow program.

Monitor: boundary of plan_query (exception classifier) + reflective walk over the plan collecting every Result /
Parameter(Result) reachable from each step, its embedded queries and the sub-steps of MapReduce / MultipleSteps.
Oracle (pure structure): planning raises only PlanningException / NotImplementedError; steps[i].step_num == i;
every reference points to a strictly earlier step (sub-steps may refer to earlier sub-steps of their own container);
every step other than the last is transitively consumed by the last step."""
from vf import core, monitors
from vf.gen import fedgen, selgen

ID = 'C09'
LEVEL = 'exploration'
TECHNIQUE = 'runtime monitor on plan_query: reflective traversal of the emitted plan, structural forward-dataflow conditions; exception classifier'
RULE = ('queries = multi- and single-integration SELECT/set operations/CTEs (generated), table-model joins (incl. USING partition_size), '
        'time-series joins (all time operators), INSERT..SELECT / UPDATE..FROM / DELETE with subquery / CREATE TABLE AS, x 6 catalog forms '
        '(names|dicts, projects, api integration, files/views, predictor list|legacy dict, default namespace); non-trivial = plan with >= 2 '
        'steps or planning raised; distinct by (query text, catalog form)')
RULE += '; also: tables joined on a model column, two models with their own partition sizes, odd version suffixes, derived tables inside DML / UNION / IN, more model conjunct kinds, a second plan on the same planner'
ASSUMPTIONS = ['every declared CTE is used by the generated query (an unused CTE would be a legitimate extra sink)',
               'the last step is the one that produces the answer']
BUDGET = {'quick': (8, 240), 'thorough': (16, 1800)}


def floors(tier):
    return {'plans_checked': 1500, 'len:catalog_forms': 6, 'containers_seen': 30, 'len:step_kinds': 10, 'planning_rejections': 20}


def ceilings(tier):
    # fractions of all evaluations; the unchanged tree stays below about two thirds of each
    return {'planning_rejections': 0.13, 'internal_error_is_C09': 0.01}


def is_step(x):
    return hasattr(x, 'step_num') and any(c.__name__ == 'PlanStep' for c in type(x).__mro__)


def collect_results(obj, descend_substeps=True):
    """All references reachable from step `obj`: Result objects (also inside embedded queries) and step objects held in
    ordinary fields (e.g. InsertToTable.dataframe).  Step objects held in the `.step` / `.steps` slot of a MapReduce /
    MultipleSteps container are sub-steps: with descend_substeps they are searched too, otherwise skipped."""
    out = []
    seen = set()

    def rec(x, depth=0, via_container_slot=False):
        if id(x) in seen or depth > 200:
            return
        if isinstance(x, (str, int, float, bool, type(None))):
            return
        seen.add(id(x))
        cls = type(x).__name__
        if cls == 'Result':
            out.append(x.step_num)
            return
        if x is not obj and is_step(x) and not via_container_slot:
            out.append(x.step_num)
            return
        if isinstance(x, (list, tuple, set)):
            for i in x:
                rec(i, depth + 1, via_container_slot)
        elif isinstance(x, dict):
            for v in x.values():
                rec(v, depth + 1)
        else:
            d = getattr(x, '__dict__', None)
            if d:
                container = cls in ('MapReduceStep', 'MultipleSteps')
                for k, v in d.items():
                    if k == 'result_data':
                        continue
                    slot = container and k in ('step', 'steps')
                    if slot and not descend_substeps:
                        continue
                    rec(v, depth + 1, slot)
    rec(obj)
    return out


def substeps(step):
    """Direct sub-steps of a container step, flattened through nested containers."""
    cls = type(step).__name__
    if cls == 'MapReduceStep':
        s = step.step
        subs = s if isinstance(s, list) else [s]
    elif cls == 'MultipleSteps':
        subs = list(step.steps)
    else:
        return []
    out = []
    for x in subs:
        inner = substeps(x)
        out.extend(inner if inner else [x])
    return out


def own_refs(step):
    """(references of the step outside its sub-steps, its flattened sub-steps)"""
    return collect_results(step, descend_substeps=False), substeps(step)


def check_plan(plan):
    """List of (sig, detail)."""
    out = []
    steps = plan.steps
    n = len(steps)
    consumed = {}
    for i, st in enumerate(steps):
        if st.step_num != i or isinstance(st.step_num, bool):
            out.append(({'cond': 'numbering', 'step': type(st).__name__}, {'index': i, 'step_num': repr(st.step_num)}))
        refs, subs = own_refs(st)
        all_refs = list(refs)
        if type(st).__name__ in ('InsertToTable', 'SaveToTable') and getattr(st, 'dataframe', None) is None and getattr(st, 'query', None) is None:
            out.append(({'cond': 'write-step-without-input', 'step': type(st).__name__}, {'index': i, 'step': repr(st)[:200]}))
        bad = [r for r in refs if not (isinstance(r, int) and not isinstance(r, bool) and 0 <= r < i)]
        if bad:
            b0 = bad[0]
            target = type(steps[b0]).__name__ if (isinstance(b0, int) and not isinstance(b0, bool) and 0 <= b0 < n) else 'no-such-step'
            out.append(({'cond': 'forward-or-self-reference', 'step': type(st).__name__, 'in': 'step', 'target': target},
                        {'index': i, 'refs': [repr(b) for b in bad]}))
        # sub-steps: may reference earlier top-level steps (< i) or earlier sub-steps of this container
        sub_ids = []
        for j, sub in enumerate(subs):
            srefs = collect_results(sub)
            for r in srefs:
                ok = (isinstance(r, int) and not isinstance(r, bool) and 0 <= r < i) or (r in sub_ids)
                if not ok:
                    target = type(steps[r]).__name__ if (isinstance(r, int) and not isinstance(r, bool) and 0 <= r < n) else 'no-such-step'
                    out.append(({'cond': 'forward-or-self-reference', 'step': type(sub).__name__, 'in': type(st).__name__, 'target': target},
                                {'index': i, 'sub': j, 'ref': repr(r), 'earlier_substeps': [repr(x) for x in sub_ids]}))
                if isinstance(r, int) and not isinstance(r, bool):
                    all_refs.append(r)
            sub_ids.append(sub.step_num)
        consumed[i] = {r for r in all_refs if isinstance(r, int) and not isinstance(r, bool) and 0 <= r < n}
    # every step but the last must be (transitively) consumed by the last
    if n:
        live = set()
        stack = [n - 1]
        while stack:
            k = stack.pop()
            if k in live:
                continue
            live.add(k)
            stack.extend(consumed.get(k, ()))
        # does some fetch carry the statement's WITH clause along (C10-F1's mechanism: the CTE was also planned as a step of its own)?
        shipped = any(type(s_).__name__ == 'FetchDataframeStep' and getattr(getattr(s_, 'query', None), 'cte', None) for s_ in steps)
        for i in range(n):
            if i not in live:
                out.append(({'cond': 'dead-step-not-consumed-by-last', 'step': type(steps[i]).__name__, 'last': type(steps[-1]).__name__,
                             'with_clause_in_fetch': bool(shipped)}, {'index': i, 'nsteps': n}))
    return out


def cases(ctx):
    n = 4000 if ctx.tier == 'quick' else 160000
    for i in range(n):
        r = core.rng_for(ctx.seed, 'C09', i)
        k = r.random()
        if k < 0.35:
            text, _, _ = fedgen.fed_query(r, single=False)
            cls = 'fed'
        elif k < 0.45:
            text, _, _ = fedgen.fed_query(r, single=True)
            cls = 'single'
        elif k < 0.7:
            text, info = fedgen.model_join(r)
            cls = 'model'
        elif k < 0.9:
            text, info = fedgen.ts_join(r)
            cls = 'ts'
        else:
            cls, text = fedgen.dml(r)
            cls = 'dml:' + cls
        if i % 12 == 7:
            # a table whose name is made of digits only (what a version suffix looks like), with and without its integration
            for t_ in ('int1.t1', 'int2.t2', 'int1.series'):
                if t_ in text:
                    text = text.replace(t_, r.choice(['`2024`', '`007`', '`1`', t_.split('.')[0] + '.`2024`', '`0`', '`2024`.`7`']))
                    break
        kw, desc = fedgen.catalog(r, form=i % 6)
        yield i, cls, text, kw, desc


def run_shard(ctx):
    from mindsdb_sql import parse_sql
    from mindsdb_sql.planner import plan_query
    from mindsdb_sql.exceptions import PlanningException
    acc = ctx.acc
    run_handbuilt(ctx)
    for i, cls, text, kw, desc in cases(ctx):
        if not ctx.mine(i):
            continue
        if ctx.out_of_time():
            acc.notes.append(f'shard {ctx.shard}: time budget hit at {i}')
            break
        try:
            q = parse_sql(text, 'mindsdb')
        except Exception as e:
            acc.count('generator_text_rejected')
            continue
        acc.ev()
        acc.add('catalog_forms', desc['form'])
        acc.count('class:' + cls.split(':')[0])
        try:
            plan = plan_query(q, **kw)
        except (PlanningException, NotImplementedError) as e:
            acc.count('planning_rejections')
            acc.key(text, desc['form'])
            continue
        except Exception as e:
            c = monitors.classify_exception(e)
            acc.fail({'cond': 'internal-error', 'etype': c['etype'], 'func': c['func'], 'file': c['file'], 'class': cls.split(':')[0]},
                     {'text': text, 'catalog': desc, 'error': f'{type(e).__name__}: {e}'[:300]})
            continue
        acc.count('plans_checked')
        for st in plan.steps:
            acc.add('step_kinds', type(st).__name__)
            for sub in substeps(st):
                acc.add('step_kinds', type(sub).__name__)
            if substeps(st):
                acc.count('containers_seen')
        if len(plan.steps) >= 2:
            acc.key(text, desc['form'])
        problems = check_plan(plan)
        # the same planner object planning twice (from_query is documented as re-usable): the second plan must be as well-formed
        if i % 4 == 0 and not cls.startswith('dml'):
            try:
                from mindsdb_sql.planner import QueryPlanner
                pl = QueryPlanner(None, **fedgen.catalog(core.rng_for(ctx.seed, 'C09', i), form=i % 6)[0])
                pl.from_query(parse_sql(text, 'mindsdb'))
                plan2 = pl.from_query(parse_sql(text, 'mindsdb'))
                acc.count('replanned_on_same_planner')
                for sig, det in check_plan(plan2):
                    problems.append((dict(sig, history='second-plan-of-same-planner'), det))
            except (PlanningException, NotImplementedError):
                pass
        partitioned = any(type(st).__name__ == 'MapReduceStep' and isinstance(st.step, list) for st in plan.steps)
        for sig, det in problems:
            sig = dict(sig, **{'class': cls.split(':')[0], 'partitioned': partitioned})
            det.update({'text': text, 'catalog': desc, 'plan': [repr(s)[:160] for s in plan.steps][:12]})
            acc.fail(sig, det)
        if len(acc.samples) < 5 and len(plan.steps) >= 3 and i % 13 == 0:
            acc.sample({'text': text[:300], 'catalog': desc, 'steps': [type(s).__name__ for s in plan.steps], 'well_formed': True})


def handbuilt_cases():
    """Trees an application builds itself (injected row sets as join members, with / without alias, with / without rows): the planner
    answers with a plan or a PlanningException like for parsed statements."""
    from mindsdb_sql.parser import ast as A
    out = []
    for rows in ([], [{'a': 1, 'b': 2}], [{'a': 1}, {'a': 2}]):
        for alias in (None, 'd'):
            for side in ('left', 'right'):
                for other in ('int1.t1', 'mindsdb.m1'):
                    def mk(rows=rows, alias=alias, side=side, other=other):
                        d = A.Data(list(rows), alias=A.Identifier(alias) if alias else None)
                        o = A.Identifier(other, alias=A.Identifier('t'))
                        l_, r_ = (d, o) if side == 'left' else (o, d)
                        return A.Select(targets=[A.Star()], from_table=A.Join(left=l_, right=r_, join_type='join',
                                        condition=None if 'm1' in other else A.BinaryOperation('=', args=[A.Identifier('t.id'), A.Identifier((alias or 'x') + '.a')])))
                    out.append((f'data-{len(rows)}rows-{"aliased" if alias else "unaliased"}-{side}-{other}', mk))
    return out


def run_handbuilt(ctx):
    from mindsdb_sql.planner import plan_query
    from mindsdb_sql.exceptions import PlanningException
    acc = ctx.acc
    for k, (label, mk) in enumerate(handbuilt_cases()):
        if not ctx.mine(k):
            continue
        for form in (0, 1, 3):
            kw, desc = fedgen.catalog(core.rng_for(ctx.seed, 'C09hb', k, form), form=form)
            acc.ev()
            acc.count('handbuilt_trees_planned')
            try:
                plan = plan_query(mk(), **kw)
            except (PlanningException, NotImplementedError):
                acc.count('planning_rejections')
                continue
            except Exception as e:
                c = monitors.classify_exception(e)
                acc.fail({'cond': 'internal-error', 'etype': c['etype'], 'func': c['func'], 'file': c['file'], 'class': 'hand-built'},
                         {'tree': label, 'catalog': desc, 'error': f'{type(e).__name__}: {e}'[:300]})
                continue
            for sig, det in check_plan(plan):
                acc.fail(dict(sig, **{'class': 'hand-built', 'partitioned': False}), dict(det, tree=label, catalog=desc))


def replay(path):
    import json
    from mindsdb_sql import parse_sql
    from mindsdb_sql.planner import plan_query
    w = json.load(open(path))
    for wit in w['witnesses']:
        print(wit['text'], wit['catalog'])
        for s in wit.get('plan', []):
            print('   ', s)
    return 1
