"""C11 - a query on one SQL integration is pushed down whole and unchanged in meaning.

Workload: generated SELECTs / set operations / CTEs / window functions over tables of ONE integration, every table
qualified by the integration (also with table and column aliases equal to the integration name, `int1.tbl.*`,
qualified columns `int1.t.c`), x random table contents x catalogs; negative variants (files / views pseudo databases,
api-type integration, project objects, user-defined functions) must NOT be a single whole-query fetch.
Monitor: boundary of plan_query.  Oracle: the plan is exactly one FetchDataframeStep for that integration, and its
query - printed by the reference printer and run against the integration's schema on sqlite3 - returns the same rows
(same order under a total ORDER BY) and the same output column names as the original text."""
import copy
import sqlite3

from vf import core, monitors
from vf.gen import fedgen, selgen
from vf.ref.printer import Printer, NotPrintable, q

ID = 'C11'
LEVEL = 'translation_validation'
TECHNIQUE = 'differential execution on sqlite3: original single-integration query vs the query of the single fetch step (reference printer), plus plan-shape contract'
RULE = ('queries = generated single-integration SELECT/UNION/CTE/window statements + dedicated alias-shadowing shapes, x 3-6 random states x '
        'catalog forms; negative variants counted separately; non-trivial = query with a join, subquery, CTE or set operation; distinct by '
        '(query, catalog form)')
RULE += '; the same statements through prepare_steps / execute_steps with some integer literals written as placeholders; also: qualified names in every clause (HAVING with and without GROUP BY, ORDER/GROUP BY, CASE, ON, windows of every form, EXISTS, target sub-queries), CTE named like a table, one planner planning a sequence'
ASSUMPTIONS = ['sqlite3 reference engine with the integration ATTACHed under its name', 'output column names are compared case-insensitively for aliased and plain-column targets']
BUDGET = {'quick': (8, 270), 'thorough': (16, 1800)}

SHADOW = [
    # a ONE-part name spelled like the integration (a column alias used again in ORDER BY / HAVING, a CTE): nothing to cut
    ('column-alias-eq-integration-in-order-by', 'SELECT p.id AS int1, p.a AS a FROM int1.t1 AS p ORDER BY int1 DESC, a', True),
    ('column-alias-eq-integration-in-having', 'SELECT p.a AS int1, count(*) AS n FROM int1.t1 AS p GROUP BY p.a HAVING int1 > 1', False),
    ('cte-named-like-integration', 'WITH int1 AS (SELECT p.id AS id, p.a AS a FROM int1.t1 AS p WHERE p.id > 1) SELECT int1.id AS id, int1.a AS a FROM int1', False),
    # a DERIVED table aliased like the integration, its columns qualified by that alias, next to another table with same-named columns
    ('derived-alias-eq-integration-join', 'SELECT int1.id AS id, q.d AS d FROM (SELECT s.id AS id, s.a AS a FROM int1.t1 AS s WHERE s.id > 1) AS int1 JOIN int1.t2 AS q ON int1.id = q.id', False),
    ('derived-alias-eq-integration-correlated', 'SELECT int1.id AS id FROM (SELECT s.id AS id, s.a AS a FROM int1.t1 AS s) AS int1 WHERE EXISTS (SELECT 1 FROM int1.t2 AS q WHERE q.a = int1.id)', False),
    ('union-derived-alias-eq-integration', 'SELECT int1.id AS id FROM (SELECT s.id AS id FROM int1.t1 AS s UNION SELECT u.id AS id FROM int1.t3 AS u) AS int1 JOIN int1.t2 AS q ON q.id = int1.id WHERE q.a IS NOT NULL', False),
    # table / column aliases that coincide with the integration name, qualified columns, stars
    ('alias-eq-integration', 'SELECT int1.id AS id, int1.a AS a FROM int1.t1 AS int1 WHERE int1.a > 0', False),
    ('qualified-columns', 'SELECT int1.t1.id AS id, int1.t1.a AS a FROM int1.t1 WHERE int1.t1.a IS NOT NULL', False),
    ('qualified-star', 'SELECT int1.t1.* FROM int1.t1 WHERE int1.t1.id > 1', False),
    ('alias-star', 'SELECT p.* FROM int1.t1 AS p', False),
    ('column-alias-eq-integration', 'SELECT p.id AS int1, p.a AS a FROM int1.t1 AS p', False),
    ('union-alias-mix', 'SELECT int1.id AS id FROM int1.t2 AS int1 UNION SELECT int1.t3.id AS id FROM int1.t3', False),
    ('subquery-alias-eq-integration', 'SELECT p.id AS id FROM int1.t1 AS p WHERE p.id IN (SELECT int1.id FROM int1.t2 AS int1 WHERE int1.a > 0)', False),
    ('unaliased-targets', 'SELECT p.id, p.a, q.d FROM int1.t1 AS p JOIN int1.t2 AS q ON p.id = q.id', False),
    ('unaliased-qualified-targets', 'SELECT int1.t1.id, int1.t1.c FROM int1.t1 ORDER BY int1.t1.id', True),
    ('subquery-targets-outer-ref', 'SELECT s.id AS sid, s.a AS sa FROM (SELECT p.id, p.a FROM int1.t1 AS p WHERE p.id < 4) AS s WHERE s.a IS NOT NULL', False),
    ('cte-unaliased', 'WITH c AS (SELECT p.id, p.a FROM int1.t1 AS p) SELECT c.id AS id, c.a AS a FROM c WHERE c.id > 1', False),
    ('window', 'SELECT p.id AS id, row_number() OVER (PARTITION BY p.a ORDER BY p.id) AS rn FROM int1.t1 AS p', False),
    ('dotted-column-alias', 'SELECT p.id AS id, p.a AS `x.y` FROM int1.t1 AS p', False),
    ('dotted-column-name', 'SELECT p.id, p.`x.y`, p.`address.city` FROM int1.t4 AS p WHERE p.`x.y` IS NOT NULL', False),
    ('dotted-column-name-unqualified', 'SELECT `address.city`, id FROM int1.t4', False),
    # qualified names in every clause the planner has to walk
    ('having-no-group-qualified', 'SELECT count(*) AS n FROM int1.t1 HAVING count(int1.t1.id) > 0', False),
    ('having-no-group-subquery', 'SELECT count(*) AS n FROM int1.t1 AS p HAVING count(*) >= (SELECT count(*) FROM int1.t2 AS s WHERE s.id > 100)', False),
    ('having-group-qualified', 'SELECT int1.t1.a AS a, count(*) AS n FROM int1.t1 GROUP BY int1.t1.a HAVING max(int1.t1.id) > 1', False),
    ('order-group-qualified', 'SELECT int1.t2.a AS a, count(*) AS n FROM int1.t2 GROUP BY int1.t2.a ORDER BY int1.t2.a DESC NULLS LAST', True),
    ('case-func-qualified', 'SELECT CASE WHEN int1.t1.a > 1 THEN abs(int1.t1.a) ELSE coalesce(int1.t1.a, 0) END AS v, int1.t1.id AS id FROM int1.t1', False),
    ('join-on-qualified', 'SELECT int1.t1.id AS id, int1.t2.d AS d FROM int1.t1 JOIN int1.t2 ON int1.t1.id = int1.t2.id AND int1.t2.a IS NOT NULL', False),
    ('window-qualified', 'SELECT int1.t1.id AS id, sum(int1.t1.id) OVER (PARTITION BY int1.t1.a ORDER BY int1.t1.id) AS s FROM int1.t1', False),
    ('between-in-qualified', 'SELECT int1.t1.id AS id FROM int1.t1 WHERE int1.t1.id BETWEEN 1 AND 4 AND int1.t1.a IN (1, 2, 3) AND NOT int1.t1.c IS NULL', False),
    ('exists-qualified', 'SELECT p.id AS id FROM int1.t1 AS p WHERE EXISTS (SELECT 1 FROM int1.t2 WHERE int1.t2.id = p.id)', False),
    ('target-subquery-qualified', 'SELECT p.id AS id, (SELECT max(int1.t2.a) FROM int1.t2) AS m FROM int1.t1 AS p', False),
    ('window-order-only-qualified', 'SELECT int1.t1.id AS id, row_number() OVER (ORDER BY int1.t1.a DESC, int1.t1.id) AS rn FROM int1.t1', False),
    ('window-partition-only-qualified', 'SELECT int1.t1.id AS id, count(*) OVER (PARTITION BY int1.t1.a) AS n FROM int1.t1', False),
    ('window-empty', 'SELECT int1.t1.id AS id, count(*) OVER () AS n FROM int1.t1 WHERE int1.t1.a IS NOT NULL', False),
    ('two-windows-qualified', 'SELECT int1.t2.id AS id, sum(int1.t2.a) OVER (ORDER BY int1.t2.id) AS s, max(int1.t2.a) OVER (PARTITION BY int1.t2.d) AS m FROM int1.t2', False),
    # a CTE named like the table it reads / like another table of the integration
    # a CTE named like the very table its body reads: judged on the plan shape only - after the qualifier is cut the body refers
    # to its own name, which PostgreSQL / MySQL resolve to the real table but the reference engine rejects as a circular reference
    ('cte-named-like-its-table', 'WITH t1 AS (SELECT p.id, p.a FROM int1.t1 AS p WHERE p.id > 1) SELECT c.id AS id, c.a AS a FROM t1 AS c', False),
    ('cte-named-like-other-table', 'WITH t2 AS (SELECT p.id, p.a FROM int1.t1 AS p) SELECT c.id AS id FROM t2 AS c WHERE c.a > 0', False),
    ('cte-and-real-table-same-name', 'WITH t2 AS (SELECT p.id FROM int1.t1 AS p) SELECT c.id AS id, r.d AS d FROM t2 AS c JOIN int1.t2 AS r ON c.id = r.id', False),
    ('alias-eq-integration-later-scope', 'SELECT int1.id AS id FROM int1.t2 AS int1 WHERE int1.a IN (SELECT int1.t3.x FROM int1.t3 WHERE int1.t3.id > 0)', False),
]
REUSE = [
    ['WITH t2 AS (SELECT p.id FROM int1.t1 AS p) SELECT t2.id AS id FROM t2',
     'SELECT p.id AS id FROM t1 AS p JOIN t2 AS q ON p.id = q.id',
     'SELECT p.id AS id FROM t2 AS p WHERE p.id IN (SELECT s.id FROM t3 AS s)',
     'SELECT p.id AS id FROM t1 AS p UNION SELECT q.id AS id FROM t2 AS q',
     'SELECT p.id AS id FROM t2 AS p JOIN t2 AS q ON p.id = q.a',
     'SELECT s.id AS id FROM (SELECT p.id, p.a FROM t2 AS p) AS s WHERE s.a > 0',
     'SELECT p.id AS id FROM t2 AS p UNION SELECT q.a AS id FROM t2 AS q',
     'SELECT p.id AS id FROM t2 AS p WHERE p.a IN (SELECT q.id FROM t2 AS q)',
     'WITH t2 AS (SELECT p.id FROM int1.t1 AS p) SELECT t2.id AS id FROM t2'],
    ['SELECT t3.id AS id FROM (SELECT p.id FROM int1.t1 AS p) AS t3',
     'SELECT p.id AS id FROM t3 AS p WHERE p.x > 0',
     'SELECT s.id AS id FROM (SELECT q.id FROM t3 AS q) AS s JOIN t1 AS r ON s.id = r.id'],
    ['WITH T1 AS (SELECT p.id FROM int1.t2 AS p), t3 AS (SELECT q.id FROM int1.t1 AS q) SELECT T1.id AS id FROM T1 JOIN t3 ON T1.id = t3.id',
     'SELECT a.id AS id FROM int1.t1 AS a JOIN t3 AS b ON a.id = b.id',
     'SELECT a.id AS id FROM t1 AS a WHERE a.id > (SELECT min(b.id) FROM t3 AS b)'],
    ['SELECT p.id AS id FROM int1.t1 AS p WHERE p.id IN (SELECT s.id FROM int1.t2 AS s)',
     'SELECT p.id AS id FROM int1.t1 AS p WHERE p.id IN (SELECT s.id FROM int1.t2 AS s)',
     'SELECT p.a AS a FROM int1.t1 AS p WHERE p.id IN (SELECT s.id FROM int1.t2 AS s)'],
]
NEGATIVE = [
    ('files', 'SELECT p.id AS id FROM files.t1 AS p WHERE p.id > 1'),
    ('views', 'SELECT p.id AS id FROM views.t1 AS p'),
    ('api', 'SELECT p.id AS id FROM api1.t1 AS p WHERE p.id IN (SELECT s.id FROM api1.t2 AS s)'),
    ('project', 'SELECT p.id AS id FROM proj.t1 AS p'),
    ('udf', 'SELECT myproj.fn(p.id) AS v FROM int1.t1 AS p'),
    ('model', 'SELECT p.id, m.y FROM int1.t1 AS p JOIN mindsdb.m1 AS m'),
]


def floors(tier):
    return {'prepared_entry_compared': 100, 'compared': 1500, 'len:shadow_shapes': 36, 'negative_variants': 50, 'len:catalog_forms': 4}


def ceilings(tier):
    # fractions of all evaluations; the unchanged tree stays below about two thirds of each
    return {'original_not_executable': 0.02, 'pushed_query_not_printable': 0.02, 'internal_error_is_C09': 0.01}


def make_db(state, attached=True):
    """attached=True: the federation view (tables live in schema int1); attached=False: the integration's own view
    (tables in the main schema, no schema called int1 - a qualifier left in the pushed query fails there)."""
    db = sqlite3.connect(':memory:')
    pre = ''
    if attached:
        db.execute("attach ':memory:' as int1")
        pre = 'int1.'
    for t, cols in selgen.SCHEMA.items():
        db.execute(f'create table {pre}{t} (' + ', '.join(f'{c} {ty}' for c, ty in cols) + ')')
        if state.get(t):
            db.executemany(f'insert into {pre}{t} values (' + ','.join('?' * len(cols)) + ')', state[t])
    # a table with a dotted column name, used by the alias-shadowing shapes only
    db.execute(f'create table {pre}t4 (id INTEGER, "x.y" INTEGER, "address.city" TEXT)')
    db.executemany(f'insert into {pre}t4 values (?,?,?)', [(1, 10, 'a'), (2, None, 'b'), (3, 30, None)])
    return db


def run(db, sql):
    cur = db.execute(sql)
    rows = cur.fetchall()
    return [d[0] for d in cur.description], rows


def pushed_sql(step):
    query = step.query
    cte_names = set()
    for path, o in monitors.walk(query):
        if type(o).__name__ == 'CommonTableExpression':
            cte_names.add(str(o.name.parts[-1]).lower())

    def table(n):
        parts = [str(p) for p in n.parts]
        if len(parts) == 1 and parts[0].lower() in cte_names:
            return q(parts[0])
        return '.'.join(q(p) for p in parts)
    return Printer(table=table).select(query)


def norm(rows):
    return sorted(rows, key=repr)


def catalogs(r, i):
    form = [0, 1, 2, 4][i % 4]
    kw, desc = fedgen.catalog(r, form=form)
    return kw, desc


def via_prepared(text, kw, r):
    """(steps via prepare/execute with placeholders, steps via prepare/execute of the literal text, text with ?, values) or None."""
    from mindsdb_sql import parse_sql
    from mindsdb_sql.planner import QueryPlanner
    from mindsdb_sql.exceptions import PlanningException
    from vf.props.c12 import FakeExecutor, strip_results
    try:
        toks = monitors.lex_all(text, 'mindsdb')
    except Exception:
        return None
    cand = [t for j, t in enumerate(toks) if t[0] == 'INTEGER' and (j == 0 or toks[j - 1][0] not in ('LIMIT', 'OFFSET', 'COMMA', 'BY', 'MINUS'))]
    if not cand:
        return None
    pick = sorted(r.sample(cand, min(len(cand), r.choice([1, 2, 3]))), key=lambda t: t[2])
    qtext, vals, last = '', [], 0
    for t in pick:
        qtext += text[last:t[2]] + '?'
        vals.append(int(text[t[2]:t[3]]))
        last = t[3]
    qtext += text[last:]

    def steps_of(tx, values):
        pl, ex = QueryPlanner(**copy.deepcopy(kw)), FakeExecutor()
        for st in pl.prepare_steps(parse_sql(tx, 'mindsdb')):
            st.set_result(ex.answer(st))
        return monitors.struct(strip_results(list(pl.execute_steps(list(values)))))
    try:
        ref = steps_of(text, [])
    except Exception:
        return None
    try:
        got = steps_of(qtext, vals)
    except (PlanningException, NotImplementedError) as e:
        got = ('rejected', str(e)[:100])
    except Exception as e:
        # grammar does not read a placeholder there, or an internal error (C02 / C09's business)
        return None
    return got, ref, qtext, vals


def run_shard(ctx):
    from mindsdb_sql import parse_sql
    from mindsdb_sql.planner import plan_query
    from mindsdb_sql.exceptions import PlanningException
    acc = ctx.acc
    n = 1500 if ctx.tier == 'quick' else 60000
    nstates = 3 if ctx.tier == 'quick' else 6
    cases = []
    for i in range(n):
        cases.append(('gen', i))
    for j, sh in enumerate(SHADOW * (4 if ctx.tier == 'quick' else 20)):
        cases.append(('shadow', j))
    for j in range(300 if ctx.tier == 'quick' else 6000):
        cases.append(('setop-chain', j))
    for idx, (kind, i) in enumerate(cases):
        if not ctx.mine(idx):
            continue
        if ctx.out_of_time():
            acc.notes.append(f'shard {ctx.shard}: time budget hit at {idx}')
            break
        r = core.rng_for(ctx.seed, 'C11', kind, i)
        if kind == 'gen':
            text, ordered, feats = fedgen.fed_query(r, single=True)
            label = 'generated'
        elif kind == 'setop-chain':
            # chains of set operations over duplicate-rich columns, the last two operands sometimes grouped by parentheses
            text, ops = selgen.setop_chain(r, fedgen.qual_single)
            ordered, feats, label = False, set(), 'setop-chain' + ('-right-nested' if 'right-nested' in ops else '')
            acc.count('setop_chain_shapes')
        else:
            label, text, ordered = SHADOW[i % len(SHADOW)]
            feats = set()
            acc.add('shadow_shapes', label)
        kw, desc = catalogs(r, idx)
        want_int = 'int1'
        plan_text = text
        if kind == 'gen' and idx % 7 == 3:
            # the same statement against an integration whose name is not ASCII (lower() and casefold() disagree on it), spelled
            # `außen1` in the statement and `Außen1` in the catalog; the reference still runs the int1 text
            # (or whose name is a fragment of the reserved pseudo-database names `files` / `views`)
            # (or a single letter - of the default project's name, or another)
            names = ['außen1', 'view', 'file', 'iles', 'außen1', 'm', 'd', 's', 'b', 'i', 'n', 'x', 'p']
            want_int = names[(idx // 7) % len(names)]
            cat_name = want_int.capitalize()
            plan_text = text.replace('int1.', f'`{want_int}`.')
            kw = copy.deepcopy(kw)
            kw['integrations'] = [(cat_name if x == 'int1' else x) if isinstance(x, str) else dict(x, name=cat_name if x['name'] == 'int1' else x['name'])
                                  for x in kw['integrations']]
            if kw.get('default_namespace') == 'int1':
                kw['default_namespace'] = want_int
            desc = dict(desc, renamed=want_int)
            acc.count('non_ascii_integration_name')
        own_schema = kind == 'gen' and idx % 13 == 6 and want_int == 'int1' and 'int1.t1' in text
        if own_schema:
            # a schema spelled like the integration itself: `int1.int1.t1` is the table `int1.t1` of int1 - exactly one qualifier goes
            plan_text = text.replace('int1.t1', 'int1.int1.t1')
            acc.count('schema_named_like_own_integration')
        try:
            tree = parse_sql(plan_text, 'mindsdb')
        except Exception:
            acc.count('generator_text_rejected')
            continue
        try:
            plan = plan_query(tree, **copy.deepcopy(kw))
        except (PlanningException, NotImplementedError) as e:
            acc.fail({'defect': 'planner-rejects-single-integration-query', 'shape': label}, {'text': text, 'catalog': desc, 'error': str(e)[:200]})
            continue
        except Exception as e:
            acc.count('internal_error_is_C09')
            continue
        acc.ev()
        acc.add('catalog_forms', desc['form'])
        steps = plan.steps
        if len(steps) != 1 or type(steps[0]).__name__ != 'FetchDataframeStep' or str(steps[0].integration).lower() != want_int:
            acc.fail({'defect': 'not-a-single-fetch', 'shape': label, 'nsteps': min(len(steps), 5)},
                     {'text': text, 'catalog': desc, 'plan': [repr(s)[:160] for s in steps][:6]})
            continue
        if own_schema:
            bad_parts = [[str(x) for x in o.parts] for _, o in monitors.walk(steps[0].query)
                         if type(o).__name__ == 'Identifier' and 't1' in [str(x).lower() for x in o.parts] and
                         [str(x).lower() for x in o.parts][:[str(x).lower() for x in o.parts].index('t1') + 1] not in (['int1', 't1'], ['t1'] if False else ['int1', 't1'])]
            # (column references keep `p.`-style aliases in this generator, so only table references mention t1)
            if bad_parts:
                acc.fail({'defect': 'schema-part-cut-with-the-integration-qualifier', 'shape': label}, {'text': plan_text, 'identifiers': bad_parts[:4], 'catalog': desc})
            continue
        try:
            sql2 = pushed_sql(steps[0])
        except NotPrintable as e:
            acc.count('pushed_query_not_printable')
            continue
        nontriv = any(k in text.upper() for k in (' JOIN ', 'UNION', 'INTERSECT', 'EXCEPT', 'WITH ', '(SELECT'))
        if nontriv:
            acc.key(text, desc['form'])
        bad = None
        for si in range(nstates):
            st = selgen.random_state(r, empty_prob=0.05)
            db = make_db(st)
            try:
                try:
                    n1, r1 = run(db, selgen.reference_text(text))
                except sqlite3.Error as e:
                    acc.count('original_not_executable')
                    break
                db2 = make_db(st, attached=False)
                try:
                    n2, r2 = run(db2, sql2)
                except sqlite3.Error as e:
                    if label == 'cte-named-like-its-table' and 'circular reference' in str(e):
                        acc.count('reference_engine_limit:self-named-cte')
                        break
                    bad = ('pushed-query-not-executable', {'error': str(e)[:200], 'state': st})
                    break
                acc.count('compared')
                # the step's query as the tree's own printer writes it (what an integration is handed when nothing renders it): where
                # the reference engine reads that text, it denotes the same rows
                try:
                    own_text = str(steps[0].query)
                    n3, r3 = run(db2, own_text)
                    acc.count('own_text_executed')
                    if (r3 != r2) if ordered else (norm(r3) != norm(r2)):
                        bad = ('own-text-of-the-step-query-denotes-other-rows', {'own_text': own_text[:300], 'expected': repr(r1)[:300], 'got': repr(r3)[:300], 'state': st})
                        break
                except sqlite3.Error:
                    acc.count('own_text_not_read_by_reference_engine')
                if ordered:
                    if r1 != r2:
                        bad = ('order-differs' if norm(r1) == norm(r2) else 'rows-differ', {'expected': repr(r1)[:300], 'got': repr(r2)[:300], 'state': st})
                        break
                elif norm(r1) != norm(r2):
                    bad = ('rows-differ', {'expected': repr(r1)[:300], 'got': repr(r2)[:300], 'state': st})
                    break
                if [x.lower() for x in n1] != [x.lower() for x in n2]:
                    bad = ('output-column-names-differ', {'expected_names': n1, 'got_names': n2})
                    break
            finally:
                db.close()
        if bad:
            kind_, det = bad
            det.update({'text': text, 'pushed': sql2, 'step_query': steps[0].query.to_string()[:400], 'catalog': desc})
            acc.fail({'defect': kind_, 'shape': label}, det)
        elif len(acc.samples) < 5 and idx % 23 == 0:
            acc.sample({'text': text[:260], 'pushed_query': sql2[:260], 'catalog': desc, 'same_rows_and_names': True})
        # the same statement through the prepared-statement entry point: some integer literals written as `?` and supplied at
        # execute time must give the very plan that the literal text gives (one fetch, same pushed query)
        if not bad and idx % 3 == 0:
            via = via_prepared(plan_text, kw, r)
            if via is not None:
                acc.count('prepared_entry_compared')
                got, ref, qtext, vals = via
                if got != ref:
                    acc.fail({'defect': 'prepared-entry-point-plans-differently', 'shape': label},
                             {'text': text, 'with_placeholders': qtext, 'values': vals, 'catalog': desc})
    # one planner object planning a sequence of statements (a CTE / alias in an earlier one is named like a table a later
    # one reads through the default namespace): each plan must be what a fresh planner produces, i.e. one fetch
    from mindsdb_sql.planner.query_planner import QueryPlanner
    for k, seq in enumerate(REUSE):
        for form in (1, 2, 5):
            if not ctx.mine(len(cases) + k * 3 + form):
                continue
            r = core.rng_for(ctx.seed, 'C11reuse', k, form)
            kw, desc = fedgen.catalog(r, form=form)
            kw['default_namespace'] = 'int1'
            planner = QueryPlanner(**copy.deepcopy(kw))
            for j, text in enumerate(seq):
                acc.ev()
                outs = []
                for how in ('fresh', 'reused'):
                    try:
                        tree = parse_sql(text, 'mindsdb')
                        plan = plan_query(tree, **copy.deepcopy(kw)) if how == 'fresh' else planner.from_query(tree)
                        outs.append(monitors.struct(list(plan.steps)))
                        if how == 'fresh' and (len(plan.steps) != 1 or type(plan.steps[0]).__name__ != 'FetchDataframeStep'):
                            acc.fail({'defect': 'not-a-single-fetch', 'shape': 'reuse-seq', 'nsteps': min(len(plan.steps), 5)},
                                     {'text': text, 'catalog': desc, 'plan': [repr(x)[:160] for x in plan.steps][:6]})
                    except (PlanningException, NotImplementedError) as e:
                        outs.append(('rejected', str(e)[:80]))
                    except Exception as e:
                        outs.append(('internal-error', type(e).__name__))
                acc.count('reuse_compared')
                if outs[0] != outs[1]:
                    acc.fail({'defect': 'plan-depends-on-planner-history', 'shape': f'reuse-seq-{k}'},
                             {'sequence': seq[:j + 1], 'catalog': desc, 'fresh': repr(outs[0])[:500], 'reused': repr(outs[1])[:500]})
                    break
    # negative variants: must not be one whole-query fetch to a SQL integration
    if ctx.shard == 0:
        for k in range(20 if ctx.tier == 'quick' else 100):
            for name, text in NEGATIVE:
                r = core.rng_for(ctx.seed, 'C11neg', k, name)
                kw, desc = fedgen.catalog(r, form=2 if name in ('api', 'project', 'udf') else 4)
                try:
                    plan = plan_query(parse_sql(text, 'mindsdb'), **kw)
                except (PlanningException, NotImplementedError):
                    acc.count('negative_variants')
                    continue
                except Exception:
                    continue
                acc.count('negative_variants')
                st = plan.steps
                whole = len(st) == 1 and type(st[0]).__name__ == 'FetchDataframeStep' and st[0].query is not None and \
                    monitors.struct(st[0].query) == monitors.struct(parse_sql(text, 'mindsdb'))
                if name in ('udf', 'model') and len(st) == 1 and type(st[0]).__name__ == 'FetchDataframeStep':
                    acc.fail({'defect': 'negative-variant-pushed-whole', 'variant': name}, {'text': text, 'plan': [repr(s)[:200] for s in st]})


def coverage_extra(m, tier):
    return {'programs': m['counters'].get('compared', 0), 'disagreements_checked': sum(e['n'] for e in m['failures'].values())}


def replay(path):
    import json
    w = json.load(open(path))
    for wit in w['witnesses']:
        print(wit['text'])
        print('  pushed:', wit.get('pushed'))
        print('  ', {k: v for k, v in wit.items() if k in ('expected', 'got', 'expected_names', 'got_names', 'error')})
    return 1
