"""C05 - a statement is accepted only if its whole token stream is one grammar sentence.

Monitors: M1 reduction trace (wrapping Production.func of the class-level grammar), M2 error()
recorder, M3 token tap.  Oracle: R1 derivation certificate - the recorded reductions, replayed
backwards as a rightmost derivation from the start symbol, must yield exactly the complete token
type sequence of the input (lexed independently), and error() must not have been called."""
from vf import core, monitors
from vf.props._parsework import Workload, DIALECTS

ID = 'C05'
LEVEL = 'translation_validation'
TECHNIQUE = 'runtime monitor: LR reduction trace + error-callback recorder, checked offline by a derivation-certificate validator'
RULE = ('cases = corpus + templates (all statement kinds) x 3 dialects, token-level mutations (delete/dup/replace/insert/'
        'truncate/garbage prefix|suffix|infix/statement concatenation/unbalanced parens), token soups, unicode noise; '
        'non-trivial = accepted input whose certificate was checked; distinct by reduction trace')
RULE += '; also: between consecutive tokens only blanks and complete comments may stand (hand scanner), comment sandwiches, long error tails, grammar-derived sentences'
ASSUMPTIONS = ['token sequence is the library lexer\'s (lexical correctness is C04)',
               'Parser._grammar.Productions is the grammar the tables were built from',
               'SLY calls Production.func for every reduction (sly/yacc.py parse loop)']
BUDGET = {'quick': (8, 240), 'thorough': (16, 1800)}

SIZES = {'quick': dict(n_templates=1500, n_mut=24000, n_soup=3000),
         'thorough': dict(n_templates=12000, n_mut=400000, n_soup=40000, n_gram=150000)}

RECOVERY = ('prefix', 'infix', 'suffix', 'concat_garbage', 'concat_stmt', 'unbalance', 'dup', 'insert')


def floors(tier):
    return {'accepted_certified': 1500, 'rejected': 1500, 'recovery_shaped': 1000, 'rejected_with_error_call': 500,
            'len:dialects_accepting': 3, 'len:productions:mindsdb': 300}


def skipped_text(gap):
    """None if `gap` holds only blanks and complete comments, else the text that is neither."""
    i, n = 0, len(gap)
    while i < n:
        if gap[i].isspace():
            i += 1
        elif gap.startswith('--', i):
            j = gap.find('\n', i)
            i = n if j < 0 else j + 1
        elif gap.startswith('/*', i):
            j = gap.find('*/', i + 2)
            if j < 0:
                return gap[i:]
            i = j + 2
        else:
            return gap[i:]
    return None


def judge(dialect, text, rec, result, exc):
    """Returns None or (sig, detail)."""
    P = monitors.parser_classes()[dialect]
    prods = P._grammar.Productions
    start = prods[0].prod[0]
    if rec.error_calls:
        return ({'kind': 'accepted-after-error', 'dialect': dialect},
                {'error_calls': rec.error_calls[:2]})
    try:
        full = monitors.lex_all(text, dialect)
    except Exception as e:
        return ({'kind': 'accepted-unlexable-rest', 'dialect': dialect}, {'lex_error': str(e)[:200]})
    types = [t[0] for t in full]
    tap = [t[0] for t in rec.tokens]
    if tap != types:
        return ({'kind': 'parser-fed-other-tokens', 'dialect': dialect},
                {'offered': tap[:50], 'lexed': types[:50]})
    # nothing but blanks and comments between the tokens: the reference reading of a comment is `--` to the end of the
    # line and `/*` up to the FIRST `*/` (scanned by hand - a regular expression would back-track to a later `*/`)
    import re as _re
    stripped = _re.sub(r'[\s;]+$', '', text)
    pos = 0
    spans = [(t[2], t[3]) for t in full] + [(len(stripped), len(stripped))]
    for a, b in spans:
        gap = stripped[pos:a]
        bad = skipped_text(gap)
        if bad is not None:
            return ({'kind': 'text-skipped-between-tokens', 'dialect': dialect}, {'gap': gap[:120], 'skipped': bad[:60], 'at': pos})
        pos = max(pos, b)
    ok, why = monitors.check_certificate(prods, start, rec.reductions, types)
    if not ok:
        import re
        return ({'kind': 'no-derivation', 'dialect': dialect, 'why': re.sub(r'\d+', 'N', why)[:60]},
                {'why': why, 'ntokens': len(types), 'nreductions': len(rec.reductions)})
    return None


def run_case(dialect, text):
    from mindsdb_sql import parse_sql
    with monitors.monitored_parse() as rec:
        try:
            res, exc = parse_sql(text, dialect), None
        except Exception as e:
            res, exc = None, e
    return rec, res, exc


def run_shard(ctx):
    from mindsdb_sql.parser.ast.base import ASTNode
    monitors.install_parser_monitors()
    acc = ctx.acc
    wl = Workload(ctx, **SIZES[ctx.tier])
    for idx, label, dialect, text in wl.cases():
        if ctx.out_of_time():
            acc.notes.append(f'shard {ctx.shard}: time budget hit at case {idx}')
            break
        rec, res, exc = run_case(dialect, text)
        acc.ev()
        acc.count('class:' + label.split(':')[0])
        if any(k in label for k in RECOVERY):
            acc.count('recovery_shaped')
        if exc is not None or not isinstance(res, ASTNode):
            acc.count('rejected')
            if rec.error_calls:
                acc.count('rejected_with_error_call')
            continue
        v = judge(dialect, text, rec, res, exc)
        acc.count('accepted_certified')
        acc.count('accepted:' + dialect)
        acc.add('dialects_accepting', dialect)
        for n in set(rec.reductions):
            acc.add('productions:' + dialect, n)
        for s in rec.red_states:
            acc.add('lr_states:' + dialect, s)
        acc.key(dialect, tuple(rec.reductions))
        if any(k in label for k in RECOVERY):
            acc.count('recovery_shaped_accepted')
        if v is not None:
            sig, detail = v
            detail.update({'dialect': dialect, 'text': text, 'class': label, 'case': idx})
            acc.fail(sig, detail)
        elif len(acc.samples) < 4 and len(rec.reductions) > 10 and idx % 7 == 0:
            acc.sample({'dialect': dialect, 'text': text[:200], 'tokens': len(rec.tokens),
                        'reductions': len(rec.reductions), 'certificate': 'valid', 'class': label})


def coverage_extra(m, tier):
    total = {}
    try:
        for d, P in monitors.parser_classes().items():
            total[d] = len(P._grammar.Productions) - 1
    except Exception:
        pass
    unc = {}
    try:
        for d, P in monitors.parser_classes().items():
            seen = m['sets'].get('productions:' + d, set())
            unc[d] = [f'{p.name} -> {" ".join(p.prod)}' for p in P._grammar.Productions[1:] if p.number not in seen and
                      p.name != 'raw_query'][:200]
    except Exception:
        pass
    return {
        'productions_never_reduced': unc,
        'programs': m['counters'].get('accepted_certified', 0),
        'disagreements_checked': sum(e['n'] for e in m['failures'].values()),
        'productions_reduced': {d: f"{len(m['sets'].get('productions:' + d, ()))}/{total.get(d, '?')}" for d in DIALECTS},
        'lr_states_seen': {d: len(m['sets'].get('lr_states:' + d, ())) for d in DIALECTS},
    }


def replay(path):
    import json
    core.use_repo()
    monitors.install_parser_monitors()
    w = json.load(open(path))
    bad = 0
    for wit in w['witnesses']:
        rec, res, exc = run_case(wit['dialect'], wit['text'])
        if exc is None:
            v = judge(wit['dialect'], wit['text'], rec, res, exc)
            print('accepted', repr(wit['text']), '->', v)
            bad += v is not None
        else:
            print('rejected', repr(wit['text']), type(exc).__name__)
    return 1 if bad else 0
