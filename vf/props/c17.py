"""C17 - the renderer honours its fallback contract and never leaks internal errors.

Monitor: API-boundary contract around SqlalchemyRender.get_string / get_exec_params with a reflective snapshot of
the tree taken before the call (OLD.struct) and compared after it; exception classifier.
Oracle: fallback on (default) -> returns a str, never raises; fallback off -> returns a str or raises only
SQLAlchemyError / NotImplementedError; struct(tree) after == before, also when the call raised."""
from vf import core, monitors
from vf.props._parsework import base_statements, gram_statements

ID = 'C17'
LEVEL = 'exploration'
TECHNIQUE = 'runtime contract (pre-snapshot / post-condition) on SqlalchemyRender.get_string|get_exec_params over every parser-produced tree; exception classifier'
RULE = ('trees = everything the three parsers accept from the corpus + generated templates of every statement kind (incl. MindsDB-only '
        'nodes, unknown cast types, tuples as operands, multi-argument aggregates) x {mysql, postgresql, postgres, sqlite, mssql, oracle, '
        'Snowflake} x {fallback on, off} x {get_string, get_exec_params}; non-trivial = tree SQLAlchemy cannot render, or a CREATE TABLE; '
        'distinct by (statement text, dialect name, flags)')
RULE += '; also: INSERT rows of mismatched length, placeholders (with alias) in every position, FROM-argument functions, the fallback text itself, the two names of one dialect'
ASSUMPTIONS = ['"supported dialect names" are the keys of the renderer\'s own table', 'tree mutation is judged on the reflective struct, not on to_tree()',
               "\"the tree's own SQL string\": for the two PostgreSQL names the library hands out that string with its back-quotes removed; that adaptation is accepted for those two names only"]
BUDGET = {'quick': (16, 240), 'thorough': (16, 1800)}
NAMES = ['mysql', 'postgresql', 'postgres', 'sqlite', 'mssql', 'oracle', 'Snowflake']

# casts to every type name the renderer knows (and some it does not), bare, with a length, with precision and scale
CAST_TYPES = ['int', 'integer', 'bigint', 'smallint', 'float', 'real', 'double', 'decimal', 'numeric', 'char', 'varchar', 'nvarchar', 'text', 'date', 'datetime',
              'timestamp', 'time', 'boolean', 'bool', 'json', 'blob', 'binary', 'signed', 'unsigned', 'int8', 'float8', 'foo']
EXTRA = [f'select cast(a as {ty}{arg}) as c, {"b::" + ty if not arg else "b"} from t' for ty in CAST_TYPES for arg in ('', '(10)', '(10,2)', '(10, 2)')] + [
    'select cast(a as float(10,2)), cast(b as float(10,2)), cast(cast(c as decimal(12,4)) as varchar(30)) from t',
    # what the renderer cannot compile (so that, by default, the tree's own printer answers) together with clauses whose spelling the
    # nodes keep as typed: lower / mixed-case keywords, NULLS rules, directions, DISTINCT, modes
    'select cast(a as foo), b from t order by b nulls first',
    'select cast(a as foo), b from t order by b desc Nulls Last, a asc',
    'select cast(a as foo), b from t group by b having count(*) > 1 order by b Desc',
    'select cast(a as foo), b from t limit 2 offset 1 for update',
    'select count(a, b) as n from t order by b nulls first',
    'select count(a, b) as n from t order by b desc Nulls Last, a asc',
    'select count(a, b) as n from t group by b having count(*) > 1 order by b Desc',
    'select count(a, b) as n from t limit 2 offset 1 for update',
    'select ? as p, b from t order by b nulls first',
    'select ? as p, b from t order by b desc Nulls Last, a asc',
    'select ? as p, b from t group by b having count(*) > 1 order by b Desc',
    'select ? as p, b from t limit 2 offset 1 for update',
    'select t1.a from t1 right join t2 on t1.x = t2.x order by b nulls first',
    'select t1.a from t1 right join t2 on t1.x = t2.x order by b desc Nulls Last, a asc',
    'select t1.a from t1 right join t2 on t1.x = t2.x group by b having count(*) > 1 order by b Desc',
    'select t1.a from t1 right join t2 on t1.x = t2.x limit 2 offset 1 for update',
    'select a from t where (a, b) in ((1, 2), (3, 4)) order by b nulls first',
    'select a from t where (a, b) in ((1, 2), (3, 4)) order by b desc Nulls Last, a asc',
    'select a from t where (a, b) in ((1, 2), (3, 4)) group by b having count(*) > 1 order by b Desc',
    'select a from t where (a, b) in ((1, 2), (3, 4)) limit 2 offset 1 for update',
    'select cast(a as foo) from t', 'select count(a, b) from t', 'select a from t where (a, b) in ((1, 2), (3, 4))',
    'select a between 1 and (1, 2) from t', 'select * from t limit 5 offset 2', 'select cast(a as json) from t',
    'create table t (a serial, b int(11), c varchar(20), d date(3), e bigint(20) default x)', 'create table t (id serial)',
    'create table s.t (a int not null, b text null, primary key (a))', 'create or replace table t (a foo)',
    'select a from t1 right join t2 on t1.x = t2.x', 'select * from a.b.c.d', 'select x.y.z.* from t',
    'insert into t values (1, 2)', 'insert into t (a, a) values (1, 2)', 'insert into t (a) select b from u',
    'update t set a = 1 from (select 1) as s where t.x = s.x', 'delete from t', 'drop table a, b' if False else 'drop table if exists s.t',
    'select interval \'1 day\' + a from t', 'select a from t for update', 'select exists(select 1)', 'select not exists(select 1) from t',
    'select case a when 1 then 2 end from t', 'select extract(month from d) from t', 'select substring(a from 1 for 2) from t',
    'select a::int, a::foo from t', 'select * from (select 1 union select 2) as u', 'with c (x) as (select 1) select * from c',
    'select @v, @@sv, ?, latest from t', 'select `a b`.`c d` from `e f`', "select 'it''s', '%s %(x)s :y' from t",
    'select f(distinct a, b) from t', 'select sum(a) over (partition by b order by c desc) from t', 'select a from t order by b nulls first',
    'select * from t1 join t2', 'select * from t1, t2, t3', 'select * from t as a full outer join u as b on a.x = b.x',
    'select database()', 'select current_date, current_user from t', 'select a from t where b in (select c from u)',
    'select a from t where b in c', 'select max(a, b, c) from t', 'select - a, not b, -(-1) from t', 'select a as `x y` from t',
    'select * from int1 (select 1) as n', 'select last from t where a > last',
    # functions with a FROM argument (other than EXTRACT)
    'select substring(a from 2), trim(b from c), position(x from y) from t', 'select f(a from b) as v from t where g(c from 1) = 2',
    # placeholders in every position, with and without alias
    'select ? as x from t', 'select ? as x', 'select a from t where b = ? and c in (?, ?) limit 2', 'select coalesce(?, 1) as c, ? from t',
    'update t set a = ? where b = ?', 'delete from t where a = ?', 'select * from t where a between ? and ?',
    'select a from t order by b nulls last, c desc nulls first', 'select a from t order by b Nulls Last',
    # rows shorter / longer than the column list, rows of different lengths
    'insert into t (a, b, c) values (1, 2)', 'insert into t (a, b) values (1), (2, 3)', 'insert into t (a) values (1, 2)',
    'insert into s.t (a, b, c, d) values (1), (2), (3)', "insert into t (a, b) values ('x')",
    'update t set a = 1, b = a + 1', 'delete from t where a in (1, 2) and b is null', 'insert into t (a) values (null), (1), (?)',
    'select a from t union all select b from u union select c from v', 'select * from t where a = any (select 1)' if False else 'select coalesce(a, b, 1) from t',
]


DEEP = [
    'select ' + ' - '.join(f'a{i}' for i in range(260)) + ' from t',
    'select ' + ' + '.join(f'a{i}' for i in range(400)) + ' from t',
    'select * from t where ' + ' and '.join(f'a{i} = {i}' for i in range(300)),
    'select * from t where ' + ' or '.join(f'a{i} = {i}' for i in range(300)),
    'select ' + 'f(' * 120 + 'a' + ')' * 120 + ' from t',
    'select ' + '(' * 150 + 'a' + ')' * 150 + ' from t',
    'select ' + ' || '.join(f'a{i}' for i in range(260)) + ' from t',
    'select * from t where a in (' + ', '.join(str(i) for i in range(2000)) + ')',
]


def floors(tier):
    return {'calls': 20000, 'len:dialect_names': 7, 'fallback_taken': 300, 'unsupported_off': 300, 'len:statement_classes': 30}


def ceilings(tier):
    # fractions of all evaluations; the unchanged tree stays below about two thirds of each
    return {'unsupported_off': 0.42}


def contract(render, tree, method, failback):
    """Run one call under the contract.  Returns (outcome, sig, detail)."""
    from sqlalchemy.exc import SQLAlchemyError
    old = monitors.struct(tree)
    exc = None
    res = None
    try:
        if method == 'get_string':
            res = render.get_string(tree, with_failback=failback)
        else:
            res = render.get_exec_params(tree, with_failback=failback, with_params=True)
            if not isinstance(res, tuple) or len(res) != 2:
                return 'violation', {'kind': 'bad-return-shape', 'method': method}, {'result': repr(res)[:200]}
            res = res[0]
    except Exception as e:
        exc = e
    new = monitors.struct(tree)
    if new != old:
        from vf.props.c01 import first_diff
        return 'violation', {'kind': 'tree-mutated', 'path': first_diff(old, new)[:120]}, {'raised': type(exc).__name__ if exc else None}
    if exc is not None:
        c = monitors.classify_exception(exc)
        if failback:
            return 'violation', {'kind': 'raises-with-fallback-on', 'etype': c['etype'], 'func': c['func'], 'file': c['file']}, \
                {'error': f'{type(exc).__name__}: {exc}'[:300]}
        if isinstance(exc, (SQLAlchemyError, NotImplementedError)):
            return 'unsupported', None, None
        return 'violation', {'kind': 'raises-other-with-fallback-off', 'etype': c['etype'], 'func': c['func'], 'file': c['file']}, \
            {'error': f'{type(exc).__name__}: {exc}'[:300]}
    if not isinstance(res, str):
        return 'violation', {'kind': 'non-str-result', 'rtype': type(res).__name__, 'method': method}, {'result': repr(res)[:200]}
    return 'rendered', None, None


def handbuilt_trees():
    """Trees an application builds itself: column types given as SQLAlchemy types, statements with optional parts left out."""
    import sqlalchemy as sa
    from mindsdb_sql.parser import ast as A
    from mindsdb_sql.parser.ast.create import TableColumn
    cols = lambda: [TableColumn('a', type=sa.Integer), TableColumn('b', type=sa.SmallInteger), TableColumn('c', type='varchar', length=10),
                    TableColumn('d', type=sa.Boolean), TableColumn('e', type=sa.BigInteger, is_primary_key=True), TableColumn('f', type=sa.Float, default='1.5'),
                    TableColumn('g', type=sa.Text, nullable=False)]
    return [
        ('create-table-sa-types', lambda: A.CreateTable(name=A.Identifier('t'), columns=cols())),
        ('create-table-replace', lambda: A.CreateTable(name=A.Identifier('s.t'), columns=cols()[:3], is_replace=True)),
        ('create-table-as-select', lambda: A.CreateTable(name=A.Identifier('t'), from_select=A.Select(targets=[A.Star()], from_table=A.Identifier('u')))),
        ('insert-no-columns', lambda: A.Insert(table=A.Identifier('t'), values=[[A.Constant(1), A.Constant('x')]])),
        ('insert-empty-row', lambda: A.Insert(table=A.Identifier('t'), columns=[A.Identifier('a')], values=[[]])),
        ('select-no-from', lambda: A.Select(targets=[A.Constant(1), A.Function('now', args=[])])),
        ('select-empty-in', lambda: A.Select(targets=[A.Star()], from_table=A.Identifier('t'), where=A.BinaryOperation('in', args=[A.Identifier('a'), A.Tuple([])]))),
        ('join-without-on', lambda: A.Select(targets=[A.Star()], from_table=A.Join(left=A.Identifier('t1'), right=A.Identifier('t2'), join_type='join'))),
        ('update-no-where', lambda: A.Update(table=A.Identifier('t'), update_columns={'a': A.Constant(1)})),
        ('delete-no-where', lambda: A.Delete(table=A.Identifier('t'))),
    ]


def run_handbuilt(ctx, renders):
    acc = ctx.acc
    for k, (label, mk) in enumerate(handbuilt_trees()):
        if not ctx.mine(k):
            continue
        # the tree's own SQL string is one of the two things the default call hands out: producing it must not change the tree either
        try:
            t0 = mk()
        except Exception:
            acc.count('handbuilt_tree_not_constructible')
            continue
        old = monitors.struct(t0)
        try:
            t0.to_string()
        except Exception:
            pass
        acc.ev()
        acc.count('handbuilt_calls')
        if monitors.struct(t0) != old:
            from vf.props.c01 import first_diff
            acc.fail({'kind': 'tree-mutated', 'path': first_diff(old, monitors.struct(t0))[:120], 'by': 'own-sql-string'}, {'tree': label})
        for name in NAMES:
            for method, failback in (('get_string', True), ('get_string', False), ('get_exec_params', True), ('get_exec_params', False)):
                t = mk()
                if (k + len(name)) % 2:
                    try:
                        t.to_string()           # printed before it is rendered, as a caller that logs the statement does
                    except Exception:
                        pass
                acc.ev()
                acc.count('calls')
                acc.count('handbuilt_calls')
                outcome, sig, det = contract(renders[name], t, method, failback)
                if outcome == 'violation':
                    acc.fail(dict(sig, statement=type(t).__name__), dict(det, tree=label, render_dialect=name, method=method, failback=failback))
                elif outcome == 'unsupported':
                    acc.count('unsupported_off')


def without_name_quotes(own):
    """The library's own text with the back-quotes around names removed and those inside string literals kept (what the two
    PostgreSQL names are handed).  Scanner over the own text: a literal runs from a quote to the next quote not preceded by a
    backslash; a quoted name from a back-quote to the next back-quote."""
    out, i, n = [], 0, len(own)
    while i < n:
        ch = own[i]
        if ch == "'":
            j = i + 1
            while j < n and own[j] != "'":
                j += 2 if own[j] == '\\' and j + 1 < n else 1
            if j >= n:
                out.append(own[i])          # no closing quote: not a literal
                i += 1
                continue
            out.append(own[i:j + 1])
            i = j + 1
        elif ch == '`':
            j = own.find('`', i + 1)
            if j < 0:
                i += 1
                continue
            out.append(own[i + 1:j])
            i = j + 1
        else:
            out.append(ch)
            i += 1
    return ''.join(out)


def run_shard(ctx):
    from mindsdb_sql import parse_sql
    from mindsdb_sql.render.sqlalchemy_render import SqlalchemyRender
    acc = ctx.acc
    renders = {n: SqlalchemyRender(n) for n in NAMES}
    run_handbuilt(ctx, renders)
    base = [('deep', s) for s in DEEP] + [('extra', s) for s in EXTRA] + base_statements(ctx.seed, 3000 if ctx.tier == 'quick' else 30000)
    base += gram_statements(ctx.seed, 2500 if ctx.tier == 'quick' else 15000)
    idx = -1
    for bi, (label, text) in enumerate(base):
        for dialect in ('mindsdb', 'mysql', 'sqlite'):
            idx += 1
            if not ctx.mine(idx):
                continue
            if ctx.out_of_time():
                acc.notes.append(f'shard {ctx.shard}: time budget hit at {idx}')
                return
            if dialect != 'mindsdb' and (bi % 3) and label != 'extra':
                continue
            try:
                tree = parse_sql(text, dialect)
            except Exception:
                continue
            acc.add('statement_classes', type(tree).__name__)
            names = NAMES if label in ('extra', 'deep') or bi % 5 == 0 else [NAMES[(bi + k) % 7] for k in range(2)]
            if label == 'deep':
                acc.count('deep_trees')
                # deepcopy of such a tree would overflow the harness itself: every call gets a freshly parsed tree
                for name in names:
                    for method, failback in (('get_string', True), ('get_string', False), ('get_exec_params', True), ('get_exec_params', False)):
                        t = parse_sql(text, dialect)
                        acc.ev()
                        acc.count('calls')
                        outcome, sig, det = contract(renders[name], t, method, failback)
                        if outcome == 'violation':
                            sig = dict(sig, statement=type(tree).__name__)
                            det.update({'text': text[:200] + '...', 'parse_dialect': dialect, 'render_dialect': name, 'method': method, 'failback': failback, 'deep': True})
                            acc.fail(sig, det)
                        elif outcome == 'unsupported':
                            acc.count('unsupported_off')
                continue
            for name in names:
                r = renders[name]
                # each call gets its own fresh copy as well as the shared tree, alternating, so that a mutation by an
                # earlier call cannot hide one by a later call
                for method, failback in (('get_string', True), ('get_string', False), ('get_exec_params', True), ('get_exec_params', False)):
                    t = tree.copy() if (idx + failback) % 2 else tree
                    acc.ev()
                    acc.count('calls')
                    acc.add('dialect_names', name)
                    outcome, sig, det = contract(r, t, method, failback)
                    if outcome == 'unsupported':
                        acc.count('unsupported_off')
                        acc.key(text, name, 'unsupported')
                    elif outcome == 'rendered':
                        if failback:
                            # was the fallback taken?  (same tree, fallback off raises)
                            pass
                    else:
                        sig = dict(sig, statement=type(tree).__name__)
                        det.update({'text': text[:400], 'parse_dialect': dialect, 'render_dialect': name, 'method': method, 'failback': failback})
                        acc.fail(sig, det)
                # fallback taken (off raises an allowed error while on returns a string): the string is the tree's own SQL
                o_off = contract(r, tree.copy(), 'get_string', False)[0]
                if o_off == 'unsupported':
                    o_on = contract(r, tree.copy(), 'get_string', True)[0]
                    if o_on == 'rendered':
                        acc.count('fallback_taken')
                        try:
                            own = tree.copy().to_string()
                            got = r.get_string(tree.copy(), with_failback=True)
                            # (for the two PostgreSQL names the library removes the back-quotes from its own text: assumption below)
                            if got != own and not (name in ('postgresql', 'postgres') and got == without_name_quotes(own)):
                                acc.fail({'kind': 'fallback-is-not-the-trees-own-sql', 'statement': type(tree).__name__},
                                         {'text': text[:300], 'render_dialect': name, 'fallback_result': got[:300], 'own_sql': own[:300]})
                        except Exception:
                            pass
            # two names of one dialect (postgres / postgresql, oracle / Snowflake) give the same result
            if bi % 4 == 0 or label == 'extra':
                for a_name, b_name in (('postgresql', 'postgres'), ('oracle', 'Snowflake')):
                    outs = []
                    for nm in (a_name, b_name):
                        try:
                            outs.append(('ok', renders[nm].get_string(tree.copy(), with_failback=False)))
                        except Exception as e:
                            outs.append(('raised', type(e).__name__))
                    acc.count('alias_name_pairs')
                    if outs[0] != outs[1]:
                        acc.fail({'kind': 'dialect-alias-renders-differently', 'pair': a_name + '/' + b_name, 'statement': type(tree).__name__},
                                 {'text': text[:300], a_name: repr(outs[0])[:300], b_name: repr(outs[1])[:300]})
                if type(tree).__name__ == 'CreateTable':
                    acc.key(text, name, 'create-table')
            if len(acc.samples) < 5 and idx % 41 == 0:
                try:
                    acc.sample({'text': text[:200], 'parse_dialect': dialect, 'render': NAMES[bi % 7],
                                'rendered': renders[NAMES[bi % 7]].get_string(tree.copy())[:200]})
                except Exception:
                    pass


def replay(path):
    import json
    from mindsdb_sql import parse_sql
    from mindsdb_sql.render.sqlalchemy_render import SqlalchemyRender
    w = json.load(open(path))
    bad = 0
    for wit in w['witnesses']:
        tree = parse_sql(wit['text'], wit['parse_dialect'])
        o, sig, det = contract(SqlalchemyRender(wit['render_dialect']), tree, wit['method'], wit['failback'])
        print(wit['text'][:200], wit['render_dialect'], wit['method'], wit['failback'], '->', o, sig, det)
        bad += o == 'violation'
    return 1 if bad else 0
