"""C18 - tree copies are independent; equality of trees, steps and plans is lawful.

Monitor: boundary of ASTNode.copy / copy.deepcopy / == / hash; reflective walker giving the ids of all mutable
objects of a tree (sharing test) and its struct (before/after mutation).
Oracle: copy is ==, struct-equal and prints identically; id sets of original and copy are disjoint; after each
single mutation of the copy (set attribute, append/remove list item, add dict key, change alias/parts) the original's
struct and text are unchanged; == is reflexive and symmetric on trees, steps, plans; equal objects print the same SQL;
plans built from equal steps compare equal (a real True); hash(Result) works and agrees with ==."""
import copy

from vf import core, monitors
from vf.gen import fedgen
from vf.props._parsework import base_statements, gram_statements

ID = 'C18'
LEVEL = 'exploration'
TECHNIQUE = 'runtime monitor on copy()/deepcopy/==/hash: reflective id-set sharing test and struct snapshots around every single-slot mutation of the copy; equality laws on trees, steps, plans'
RULE = ('trees = everything the mindsdb parser accepts from the corpus + generated templates (all statement kinds) + planner-made identifiers '
        'carrying sub_select; plans = generated federated / model / time-series / DML plans; every single-slot mutation of the copy; equality on '
        '(x, x), (x, copy), (x, other), (x, mutated copy) in both orders; non-trivial = tree with >= 3 nodes or plan with >= 2 steps; distinct by struct digest')
RULE += '; also: alias and parentheses changed at the first, middle and last slot, statements of several thousand characters'
ASSUMPTIONS = ['all state of a node is reachable through vars() / list / dict / tuple', 'strings, numbers, None and tuples of those are immutable and may be shared']
BUDGET = {'quick': (8, 240), 'thorough': (16, 1800)}


def floors(tier):
    return {'copies_checked': 2000, 'mutations_applied': 20000, 'plans_checked': 500, 'eq_pairs': 5000, 'plan_length_variants': 300, 'executed_step_pairs': 300, 'len:statement_classes': 30}


def shared_mutables(a, b):
    ia = monitors.mutable_ids(a)
    ib = monitors.mutable_ids(b)
    return [(ia[k], ib[k]) for k in ia.keys() & ib.keys()]


def mutations(c):
    """Yield (label, apply) for every single-slot mutation of object graph c; apply() performs it."""
    from mindsdb_sql.parser.ast import Identifier
    for path, o in monitors.walk(c):
        if isinstance(o, list):
            yield path + ':append', (lambda o=o: o.append(Identifier('zz_mut')))
            if o:
                yield path + ':pop', (lambda o=o: o.pop())
                yield path + ':set0', (lambda o=o: o.__setitem__(0, Identifier('zz_mut')))
        elif isinstance(o, dict):
            yield path + ':addkey', (lambda o=o: o.__setitem__('zz_mut', 1))
        elif isinstance(o, (tuple, set, frozenset)):
            continue
        elif hasattr(o, '__dict__'):
            for k in list(vars(o)):
                v = getattr(o, k)
                if isinstance(v, bool):
                    yield f'{path}.{k}:toggle', (lambda o=o, k=k, v=v: setattr(o, k, not v))
                elif isinstance(v, str):
                    yield f'{path}.{k}:str', (lambda o=o, k=k, v=v: setattr(o, k, v + '_m'))
                elif k == 'alias':
                    yield f'{path}.{k}:alias', (lambda o=o: setattr(o, 'alias', Identifier('zz_alias')))
                elif v is None or isinstance(v, (int, float)):
                    yield f'{path}.{k}:scalar', (lambda o=o, k=k: setattr(o, k, 12345))
                else:
                    yield f'{path}.{k}:none', (lambda o=o, k=k: setattr(o, k, None))


def check_tree(A, acc, tier, label=''):
    """List of (sig, detail)."""
    out = []
    cls = type(A).__name__
    try:
        sa0 = monitors.struct(A)
        ta0 = A.to_string()
    except Exception:
        return out
    for how in ('copy', 'deepcopy'):
        try:
            C = A.copy() if how == 'copy' else copy.deepcopy(A)
        except Exception as e:
            out.append(({'law': 'copy-raises', 'how': how, 'etype': type(e).__name__, 'cls': cls}, {'error': str(e)[:200]}))
            continue
        acc.count('copies_checked')
        if monitors.struct(C) != sa0:
            from vf.props.c01 import first_diff
            out.append(({'law': 'copy-struct-differs', 'how': how, 'path': first_diff(sa0, monitors.struct(C))[:100]}, {}))
            continue
        try:
            if C.to_string() != ta0:
                out.append(({'law': 'copy-prints-differently', 'how': how, 'cls': cls}, {'orig': ta0[:200], 'copy': C.to_string()[:200]}))
            eq = (C == A)
            if eq is not True:
                out.append(({'law': 'copy-not-equal', 'how': how, 'cls': cls, 'value': repr(eq)}, {}))
        except Exception as e:
            out.append(({'law': 'eq-or-print-raises', 'cls': cls, 'etype': type(e).__name__}, {'error': str(e)[:200]}))
        sh = shared_mutables(A, C)
        if sh:
            import re
            p0 = sorted(sh)[0][0]
            out.append(({'law': 'copy-shares-mutable-object', 'how': how, 'where': re.sub(r'\[\d+\]', '[]', p0)[-60:],
                         'kind': type([o for p, o in monitors.walk(A) if p == p0][0]).__name__},
                        {'shared_paths': [s[0] for s in sorted(sh)[:4]]}))
        # mutate the copy, one slot at a time; the original must not move
        muts = list(mutations(C))
        budget = 60 if tier == 'quick' else 400
        step = max(1, len(muts) // budget)
        for label_m, _ in muts[::step]:
            C2 = A.copy() if how == 'copy' else copy.deepcopy(A)
            target = dict(mutations(C2)).get(label_m)
            if target is None:
                continue
            try:
                target()
            except Exception:
                continue
            acc.count('mutations_applied')
            try:
                changed = monitors.struct(A) != sa0 or A.to_string() != ta0
            except Exception:
                changed = True
            if changed:
                import re
                out.append(({'law': 'mutating-copy-changes-original', 'how': how, 'mutation': re.sub(r'\[\d+\]', '[]', label_m)[-70:]}, {}))
                return out        # the original is damaged: stop here
    return out


def eq_laws(x, y, acc, what):
    out = []
    acc.count('eq_pairs')
    try:
        a, b = (x == y), (y == x)
    except Exception as e:
        return [({'law': 'eq-raises', 'what': what, 'etype': type(e).__name__}, {'error': str(e)[:200]})]
    if bool(a) != bool(b):
        out.append(({'law': 'eq-not-symmetric', 'what': what}, {'x==y': repr(a), 'y==x': repr(b)}))
    for v in (a, b):
        if not isinstance(v, bool):
            out.append(({'law': 'eq-returns-non-bool', 'what': what, 'value': repr(v)}, {}))
            break
    # `!=` is the other face of the same relation
    try:
        na = (x != y)
        if bool(na) == bool(a):
            out.append(({'law': 'ne-disagrees-with-eq', 'what': what}, {'x==y': repr(a), 'x!=y': repr(na)}))
    except Exception as e:
        out.append(({'law': 'eq-raises', 'what': what + ' (!=)', 'etype': type(e).__name__}, {'error': str(e)[:200]}))
    return out


def run_shard(ctx):
    from mindsdb_sql import parse_sql
    from mindsdb_sql.planner import plan_query
    from mindsdb_sql.planner.query_plan import QueryPlan
    from mindsdb_sql.planner.step_result import Result
    from mindsdb_sql.parser.ast import Identifier, Select, Star
    acc = ctx.acc
    base = base_statements(ctx.seed, 2500 if ctx.tier == 'quick' else 50000)
    # long statements: what is compared / copied must not depend on the length of the text
    base += [('long', 'SELECT ' + ', '.join(f'col_{j} + {j} AS a{j}' for j in range(n)) + ' FROM tbl WHERE ' + ' AND '.join(f'(col_{j} > {j})' for j in range(n // 2)))
             for n in (30, 80, 200)]
    base += [('long', 'SELECT x FROM t WHERE y IN (' + ', '.join(f"'v{j}'" for j in range(300)) + ') ORDER BY x, (y) DESC'),
             ('long', 'INSERT INTO t (a, b) VALUES ' + ', '.join(f"({j}, 'w{j}')" for j in range(120)))]
    # chains of one operator around a hundred terms deep (a copy routine may treat deep chains by other code than short ones)
    for n in (99, 100, 101, 102, 120, 140):
        chain = ' OR '.join(f'a = {j}' for j in range(n))
        base += [('chain', f'SELECT x FROM t WHERE {chain}'), ('chain', f'DELETE FROM t WHERE {chain}'), ('chain', f'UPDATE t SET b = 1 WHERE {chain}'),
                 ('chain', 'SELECT ' + ' + '.join(f'c{j}' for j in range(n)) + ' AS s FROM t')]
    base += gram_statements(ctx.seed, 2000 if ctx.tier == 'quick' else 12000)
    # names that a constructor-side validation could object to although the parser produced them (empty, blank, dotted, numeric, star-like
    # parts in both quotings, as column / table / alias / qualified part)
    from vf.gen import sqlgen
    for x in ['', ' ', '.', 'a.b', '1', '*', '..', 'a b', '0.5', '-', 'select', 'NULL']:
        for pos in sqlgen.IDENT_POSITIONS + ['SELECT t.`{x}` FROM tbl t', 'SELECT `{x}`.a FROM t', 'SELECT a AS `{x}` FROM t', 'SELECT a FROM t AS `{x}`', 'SELECT a.b.`{x}` FROM t']:
            for q in ('`', '"'):
                base.append(('odd-name', pos.replace('`{x}`', q + x + q)))
    # every kind of select-list item carrying an alias (and parentheses): leaves with hand-written copy methods included
    items = ['@v', '@@sysv', '?', '1', "'s'", 'NULL', 'TRUE', '1.5', 'a', 't.a', '*', 'count(*)', 'f(a, @v)', 'CAST(a AS int)', 'a::int', 'CASE WHEN a THEN @v END',
             'sum(a) OVER (PARTITION BY b)', '(SELECT @v)', 'a + @v', '-a', 'NOT a', 'a BETWEEN @x AND ?', '(1, @v)', 'LAST', 'a IN (@v, ?)', "DATE '2020-01-01'",
             'INTERVAL 1 day', 'EXISTS (SELECT 1)', 'a IS NULL']
    for it in items:
        for form in ('SELECT {x} AS al FROM t', 'SELECT ({x}) AS al FROM t', 'SELECT b, {x} al, c FROM t WHERE {x} = @w', 'SELECT {x} AS `a l`, {x} AS al2 FROM t ORDER BY {x}'):
            base.append(('aliased-item', form.replace('{x}', it)))
    # statements that every dialect's parser reads with rules of its own (SHOW / SET / USE / transactions ...)
    for frm in ['tbl', 'db.tbl', 'a.b.c', 'tbl FROM db', '`my db`.`t 1`']:
        for what in ['COLUMNS', 'FULL COLUMNS', 'INDEXES', 'TABLES', 'FULL TABLES', 'TABLE STATUS']:
            for tail in ['', " LIKE 'x%'", ' WHERE a = 1']:
                base.append(('show', f'SHOW {what} FROM {frm}{tail}'))
    prev = None
    for i, (label, text) in enumerate(base):
        if not ctx.mine(i):
            continue
        if ctx.out_of_time():
            acc.notes.append(f'shard {ctx.shard}: time budget hit at {i}')
            break
        # the tree that another dialect's parser builds from the same text (its grammar actions are its own)
        for dialect in (('mysql', 'sqlite') if label == 'show' else (['mysql', 'sqlite'][i % 2],) if i % 3 == 0 else ()):
            try:
                B = parse_sql(text, dialect)
            except Exception:
                continue
            acc.count('other_dialect_trees')
            acc.add('other_dialects', dialect)
            fails = check_tree(B, acc, ctx.tier)
            fails += eq_laws(B, B, acc, 'tree-reflexive')
            for sig, det in fails:
                det.update({'text': text[:300], 'dialect': dialect})
                acc.fail(sig, det)
        try:
            A = parse_sql(text, 'mindsdb')
        except Exception:
            continue
        acc.ev()
        acc.add('statement_classes', type(A).__name__)
        if sum(1 for _ in monitors.walk(A)) >= 3:
            acc.key(monitors.struct_key(A))
        fails = check_tree(A, acc, ctx.tier)
        # equality laws
        fails += eq_laws(A, A, acc, 'tree-reflexive')
        try:
            if (A == A) is not True:
                fails.append(({'law': 'eq-not-reflexive', 'what': 'tree', 'cls': type(A).__name__}, {}))
        except Exception:
            pass
        if prev is not None:
            fails += eq_laws(A, prev, acc, 'tree-vs-other')
            try:
                if (A == prev) is True and A.to_string() != prev.to_string():
                    fails.append(({'law': 'equal-trees-print-differently'}, {'a': A.to_string()[:200], 'b': prev.to_string()[:200]}))
            except Exception:
                pass
        # a copy with one changed flag must not be equal if it prints differently, and equal objects print the same
        try:
            nslots = sum(1 for p, o in monitors.walk(A) if hasattr(o, 'alias') and hasattr(o, '__dict__') and o is not A)
            # the first, the middle and the last node that can carry an alias / parentheses (the change may sit anywhere in the text)
            for which in sorted({0, nslots // 2, nslots - 1} - {-1}):
                for attr in ('alias', 'parentheses'):
                    M = A.copy()
                    k = -1
                    for p, o in monitors.walk(M):
                        if hasattr(o, 'alias') and hasattr(o, '__dict__') and o is not M:
                            k += 1
                            if k == which:
                                if attr == 'alias':
                                    o.alias = Identifier('zz_alias')
                                else:
                                    o.parentheses = not bool(getattr(o, 'parentheses', False))
                                break
                    acc.count('mutated_copies_compared')
                    fails += eq_laws(A, M, acc, 'tree-vs-mutated-copy')
                    # the same two trees held by two steps, and those steps held by two plans: equal only if they print the same
                    if which == 0 and A.to_string() != M.to_string():
                        from mindsdb_sql.planner.steps import FetchDataframeStep, SubSelectStep
                        for mk in (lambda q: FetchDataframeStep(integration='int1', query=q), lambda q: SubSelectStep(q, Result(0))):
                            s1, s2 = mk(A), mk(M)
                            acc.count('step_pairs_holding_different_trees')
                            fails += eq_laws(s1, s2, acc, 'steps-holding-different-trees')
                            if (s1 == s2) is True:
                                fails.append(({'law': 'equal-steps-print-differently', 'changed': attr, 'step': type(s1).__name__}, {'a': A.to_string()[:200], 'b': M.to_string()[:200]}))
                            if (QueryPlan(steps=[s1]) == QueryPlan(steps=[s2])) is True:
                                fails.append(({'law': 'equal-plans-print-differently', 'changed': attr, 'step': type(s1).__name__}, {'a': A.to_string()[:200], 'b': M.to_string()[:200]}))
                    if (A == M) is True and A.to_string() != M.to_string():
                        sa, sb = A.to_string(), M.to_string()
                        at = next((j for j, (x, y) in enumerate(zip(sa, sb)) if x != y), min(len(sa), len(sb)))
                        fails.append(({'law': 'equal-trees-print-differently', 'changed': attr},
                                      {'a': sa[max(0, at - 60):at + 60], 'b': sb[max(0, at - 60):at + 60], 'first_difference_at': at, 'length': len(sa)}))
            # a text-valued field (a raw query, a literal, a stored statement text) whose blanks change: another text, another print
            def text_slots(T):
                return [(o, k) for p, o in monitors.walk(T) if hasattr(o, '__dict__') for k, v in vars(o).items()
                        if isinstance(v, str) and ' ' in v.strip() and
                        # (fields that hold the USER's text: raw queries, stored statement texts, string literals - not keyword spellings)
                        (k in ('query', 'query_str', 'raw_query', 'if_query_str', 'sql', 'body') or (k == 'value' and type(o).__name__ == 'Constant'))]
            slots = text_slots(A)
            for which in sorted({0, len(slots) - 1} - {-1}):
                for how in ('doubled', 'line-break'):
                    M = A.copy()
                    ms = text_slots(M)
                    if which >= len(ms):
                        continue
                    o, k = ms[which]
                    v = getattr(o, k)
                    j = v.strip().index(' ') + (len(v) - len(v.lstrip()))
                    setattr(o, k, v[:j] + ('  ' if how == 'doubled' else '\n') + v[j + 1:])
                    if A.to_string() == M.to_string():
                        continue
                    acc.count('text_field_variants_compared')
                    fails += eq_laws(A, M, acc, 'tree-vs-text-field-variant')
                    if (A == M) is True:
                        fails.append(({'law': 'equal-trees-print-differently', 'changed': 'blanks-in-text-field:' + type(o).__name__ + '.' + k},
                                      {'a': A.to_string()[:200], 'b': M.to_string()[:200]}))
            # a constant replaced by its equal-valued twin of another type (1 / 1.0 / TRUE, 0 / 0.0 / FALSE): Python calls them equal,
            # SQL prints them differently
            consts = [o for p, o in monitors.walk(A) if type(o).__name__ == 'Constant' and isinstance(o.value, (int, float)) and o.value in (0, 1)]
            for which in sorted({0, len(consts) - 1} - {-1}):
                M = A.copy()
                mc = [o for p, o in monitors.walk(M) if type(o).__name__ == 'Constant' and isinstance(o.value, (int, float)) and o.value in (0, 1)]
                if which >= len(mc):
                    continue
                o = mc[which]
                twins = [x for x in (int(o.value), float(o.value), bool(o.value)) if type(x) is not type(o.value)]
                o.value = twins[(i + which) % len(twins)]
                if A.to_string() == M.to_string():
                    continue
                acc.count('constant_twins_compared')
                fails += eq_laws(A, M, acc, 'tree-vs-constant-twin')
                if (A == M) is True:
                    fails.append(({'law': 'equal-trees-print-differently', 'changed': 'constant-twin'}, {'a': A.to_string()[:200], 'b': M.to_string()[:200]}))
                # node level, and inside a step
                o0 = [x for p, x in monitors.walk(A) if type(x).__name__ == 'Constant' and isinstance(x.value, (int, float)) and x.value in (0, 1)][which]
                if (o0 == o) is True and o0.to_string() != o.to_string():
                    fails.append(({'law': 'equal-nodes-print-differently', 'cls': 'Constant'}, {'a': o0.to_string(), 'b': o.to_string()}))
        except Exception:
            pass
        prev = A
        for sig, det in fails:
            det.update({'text': text[:300]})
            acc.fail(sig, det)
        if not fails and len(acc.samples) < 4 and i % 23 == 0:
            acc.sample({'text': text[:200], 'copy_independent': True, 'mutable_objects': len(monitors.mutable_ids(A))})
    # identifiers carrying sub_select, as the join planner makes them
    if ctx.shard == 0:
        ident = Identifier('t_1', alias=Identifier('s'))
        ident.sub_select = Select(targets=[Star()], from_table=Identifier('int1.t1'))
        for sig, det in check_tree(Select(targets=[Star()], from_table=ident), acc, ctx.tier):
            det.update({'text': '<Identifier with sub_select>'})
            acc.fail(dict(sig, tree='identifier-with-sub_select'), det)
        acc.count('sub_select_identifiers')
    # plans -------------------------------------------------------------------------------------------
    n = 700 if ctx.tier == 'quick' else 20000
    prev_plan = None
    for i in range(n):
        if not ctx.mine(i) or ctx.out_of_time():
            continue
        r = core.rng_for(ctx.seed, 'C18plan', i)
        k = r.random()
        if k < 0.5:
            text, _, _ = fedgen.fed_query(r)
        elif k < 0.75:
            text, _ = fedgen.model_join(r)
        elif k < 0.9:
            text, _ = fedgen.ts_join(r)
        else:
            _, text = fedgen.dml(r)
        kw, _ = fedgen.catalog(r, form=i % 6)
        try:
            p1 = plan_query(parse_sql(text, 'mindsdb'), **kw)
            kw2, _ = fedgen.catalog(core.rng_for(ctx.seed, 'C18plan', i), form=i % 6)
            r2 = core.rng_for(ctx.seed, 'C18plan', i)
            p2 = plan_query(parse_sql(text, 'mindsdb'), **fedgen.catalog(r2, form=i % 6)[0])
        except Exception:
            continue
        acc.ev()
        acc.count('plans_checked')
        if len(p1.steps) >= 2:
            acc.key('plan', text, i % 6)
        fails = []
        # two plans built from equal steps (same query, same catalog) must compare equal - a real True
        if monitors.struct(p1.steps) == monitors.struct(p2.steps):
            try:
                v = (p1 == p2)
                if v is not True:
                    fails.append(({'law': 'equal-plans-not-equal', 'value': repr(v)}, {}))
                v2 = (QueryPlan(steps=list(p1.steps)) == p1)
            except Exception as e:
                fails.append(({'law': 'plan-eq-raises', 'etype': type(e).__name__}, {'error': str(e)[:200]}))
        fails += eq_laws(p1, p1, acc, 'plan-reflexive')
        try:
            if (p1 == p1) is not True:
                fails.append(({'law': 'eq-not-reflexive', 'what': 'plan'}, {}))
        except Exception:
            pass
        for s1, s2 in zip(p1.steps, p2.steps):
            fails += eq_laws(s1, s2, acc, 'step')
            try:
                if (s1 == s1) is not True:
                    fails.append(({'law': 'eq-not-reflexive', 'what': 'step', 'cls': type(s1).__name__}, {}))
                if monitors.struct(s1) == monitors.struct(s2) and (s1 == s2) is not True:
                    fails.append(({'law': 'equal-steps-not-equal', 'cls': type(s1).__name__}, {}))
            except Exception as e:
                fails.append(({'law': 'step-eq-raises', 'etype': type(e).__name__, 'cls': type(s1).__name__}, {'error': str(e)[:200]}))
        # plans that are NOT built from equal steps: the empty plan, a proper prefix, the first step alone, the plan with one more
        # step - in both orders.  Whole-plan equality must agree with equality of the step lists (plans of different length
        # cannot print the same SQL).
        import copy as _copy
        try:
            others = [('empty', QueryPlan())]
            if len(p1.steps) >= 2:
                others.append(('prefix', QueryPlan(steps=_copy.deepcopy(p1.steps[:-1]))))
                others.append(('first-step', QueryPlan(steps=_copy.deepcopy(p1.steps[:1]))))
            if prev_plan is not None and prev_plan.steps:
                longer = _copy.deepcopy(p1.steps) + [_copy.deepcopy(prev_plan.steps[-1])]
                longer[-1].step_num = len(longer) - 1
                others.append(('one-more-step', QueryPlan(steps=longer)))
            for name, q in others:
                acc.count('plan_length_variants')
                fails += eq_laws(p1, q, acc, 'plan-vs-' + name)
                for x, y, order in ((p1, q, 'plan==variant'), (q, p1, 'variant==plan')):
                    if bool(x == y) != bool(x.steps == y.steps):
                        fails.append(({'law': 'plan-equality-disagrees-with-step-lists', 'variant': name, 'order': order},
                                      {'plan_eq': repr(x == y), 'steps_eq': repr(x.steps == y.steps), 'lens': [len(x.steps), len(y.steps)]}))
        except Exception as e:
            fails.append(({'law': 'plan-eq-raises', 'etype': type(e).__name__, 'what': 'length-variants'}, {'error': str(e)[:200]}))
        # steps that have been executed (the executor stores its answer on the step: set_result) against their fresh twins, in both
        # orders, alone and inside plans: the stored answer is documented as not part of the comparison
        try:
            exec_steps = _copy.deepcopy(p1.steps)
            for j, es in enumerate(exec_steps):
                es.set_result({'rows': [[j, 'x']], 'columns': ['a', 'b']} if j % 2 == 0 else [j])
            for es, s2 in zip(exec_steps, p2.steps):
                acc.count('executed_step_pairs')
                fails += eq_laws(es, s2, acc, 'executed-step-vs-fresh')
                if monitors.struct(p1.steps) == monitors.struct(p2.steps):
                    for x, y, order in ((es, s2, 'executed==fresh'), (s2, es, 'fresh==executed')):
                        if (x == y) is not True:
                            fails.append(({'law': 'executed-step-not-equal-to-fresh-twin', 'order': order, 'cls': type(es).__name__}, {}))
            pe = QueryPlan(steps=exec_steps)
            fails += eq_laws(pe, p2, acc, 'executed-plan-vs-fresh')
            if monitors.struct(p1.steps) == monitors.struct(p2.steps) and ((pe == p2) is not True or (p2 == pe) is not True):
                fails.append(({'law': 'executed-plan-not-equal-to-fresh-twin'}, {'pe==p2': repr(pe == p2), 'p2==pe': repr(p2 == pe)}))
        except Exception as e:
            fails.append(({'law': 'step-eq-raises', 'etype': type(e).__name__, 'what': 'executed-steps'}, {'error': str(e)[:200]}))
        if prev_plan is not None:
            fails += eq_laws(p1, prev_plan, acc, 'plan-vs-other')
            try:
                if bool(p1 == prev_plan) != bool(p1.steps == prev_plan.steps):
                    fails.append(({'law': 'plan-equality-disagrees-with-step-lists', 'variant': 'other-plan', 'order': 'plan==other'}, {}))
            except Exception:
                pass
            for s1 in p1.steps[:2]:
                for s2 in prev_plan.steps[:2]:
                    fails += eq_laws(s1, s2, acc, 'step-vs-other')
        # a Result and the step it stands for are different things: never equal, in either order (and the comparison is symmetric)
        for st in p1.steps[:3]:
            try:
                res = st.result
            except Exception:
                continue
            fails += eq_laws(res, st, acc, 'result-vs-its-step')
            try:
                if (res == st) or (st == res):
                    fails.append(({'law': 'result-equals-its-step', 'cls': type(st).__name__}, {'res==step': repr(res == st), 'step==res': repr(st == res)}))
            except Exception:
                pass
        # results
        try:
            ra, rb = Result(len(p1.steps)), Result(len(p1.steps))
            if ra != rb or not (ra == rb):
                fails.append(({'law': 'equal-results-not-equal'}, {}))
            if hash(ra) != hash(rb):
                fails.append(({'law': 'equal-results-hash-differently'}, {}))
            if len({ra, rb, Result(0)}) != (2 if len(p1.steps) else 1):
                fails.append(({'law': 'result-set-membership'}, {}))
        except Exception as e:
            fails.append(({'law': 'hash-result-raises', 'etype': type(e).__name__}, {'error': str(e)[:200]}))
        prev_plan = p1
        for sig, det in fails:
            det.update({'text': text[:300]})
            acc.fail(sig, det)


def replay(path):
    import json
    w = json.load(open(path))
    print(json.dumps(w, indent=1)[:2500])
    return 1
