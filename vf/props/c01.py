"""C01 - printing a parsed statement and re-parsing it yields the same tree.

Monitor: API boundary of parse_sql / to_string / copy; reflective struct() of both trees (class and every
attribute, recursively - independent of to_tree()).  Oracle: s1 = A.to_string() is accepted by the same
dialect, struct(parse(s1)) == struct(A), parse(s1).to_string() == s1; the same for A.copy().  A failing
statement is localised to the smallest failing sub-node, which gives the mechanism signature."""
import re

from vf import core, monitors
from vf.props._parsework import Workload, DIALECTS, base_statements

ID = 'C01'
LEVEL = 'exploration'
TECHNIQUE = 'runtime monitor: parse -> print -> re-parse on the real functions, compared with a reflective structural snapshot; failing statements localised to the smallest failing node'
RULE = ('cases = corpus + generated templates covering every statement kind x 3 dialects (a statement is used in a dialect iff '
        'accepted) + hostile identifier lexemes (every token word, $/digit/space/dot decorations) in 13 positions; each also through '
        'copy(); non-trivial = accepted with >= 4 tokens; distinct by (dialect, token-type sequence)')
RULE += '; also: statements in lower / swapped case, edge decimals (17 digits, exponent range), LIMIT/OFFSET 0, parenthesised window functions'
ASSUMPTIONS = ['identical tree = equal reflective struct (class + all attributes incl. alias and parentheses)',
               'statements rejected on first parse are outside C01']
BUDGET = {'quick': (16, 270), 'thorough': (16, 1800)}
SIZES = {'quick': dict(n_templates=6000, n_mut=0, n_soup=0, n_noise=False, n_lexeme=9000, short_names=True),
         'thorough': dict(n_templates=60000, n_mut=0, n_soup=0, n_noise=False, n_lexeme=60000, short_names=True)}


def floors(tier):
    return {'accepted': 4000, 'len:statement_classes': 40, 'len:dialects': 3, 'copies_checked': 4000}


def ceilings(tier):
    # fractions of all evaluations; the unchanged tree stays below about two thirds of each
    return {'rejected_first_parse': 0.45}


def _parse(sql, dialect):
    from mindsdb_sql import parse_sql
    return parse_sql(sql, dialect)


def roundtrip(A, dialect):
    """None if the round trip holds for tree A, else (kind, detail)."""
    try:
        s1 = A.to_string()
    except Exception as e:
        return 'print-raises', {'error': f'{type(e).__name__}: {e}'[:200]}
    if not isinstance(s1, str):
        return 'print-not-str', {'type': type(s1).__name__}
    try:
        B = _parse(s1, dialect)
    except Exception as e:
        return 'reparse-rejected', {'printed': s1[:400], 'error': f'{type(e).__name__}: {str(e)[:160]}',
                                    'reject_at': reject_at(s1, dialect)}
    sa, sb = monitors.struct(A), monitors.struct(B)
    if sa != sb:
        return 'tree-differs', {'printed': s1[:400], 'diff': first_diff(sa, sb)}
    try:
        s2 = B.to_string()
    except Exception as e:
        return 'reprint-raises', {'error': f'{type(e).__name__}: {e}'[:200]}
    if s2 != s1:
        return 'string-differs', {'printed': s1[:300], 'reprinted': s2[:300]}
    try:
        eq = (A == B)
    except Exception as e:
        return 'eq-raises', {'error': f'{type(e).__name__}: {e}'[:200]}
    if eq is not True:
        return 'eq-disagrees', {'printed': s1[:300], 'eq': repr(eq)}
    return None


def reject_at(text, dialect):
    """Where the parser gives up on `text`: '<previous token type>><offending token type>' (from the parser's own
    first error() call), 'lexerror', or 'action' when a grammar action rejected it."""
    with monitors.monitored_parse() as rec:
        try:
            _parse(text, dialect)
            return 'accepted'
        except Exception as e:
            if type(e).__name__ == 'LexError':
                return 'lexerror'
            if not rec.error_calls:
                # mysql/sqlite error() raises before the recorder's frozen flag matters; action-raised otherwise
                return 'action:' + monitors.classify_exception(e)['func']
    ec = rec.error_calls[0]
    toks = rec.tokens
    prev = 'BOF'
    if ec['eof']:
        return (toks[-1][0] if toks else 'BOF') + '>EOF'
    for i, t in enumerate(toks):
        if t[2] == ec['index']:
            prev = toks[i - 1][0] if i > 0 else 'BOF'
            break
    return f'{prev}>{ec["type"]}'


def first_diff(a, b, path=''):
    """Normalised path of the first structural difference (list indices wildcarded)."""
    if type(a) != type(b):
        return path + f'<{_tn(a)}!={_tn(b)}>'
    if isinstance(a, dict):
        if '__class__' in a and '__class__' in b:
            if a['__class__'] != b['__class__']:
                return path + f'<{a["__class__"]}!={b["__class__"]}>'
            fa, fb = a['fields'], b['fields']
            for k in sorted(set(fa) | set(fb)):
                if k not in fa or k not in fb:
                    return path + f'{a["__class__"]}.{k}<missing>'
                if fa[k] != fb[k]:
                    return first_diff(fa[k], fb[k], path + f'{a["__class__"]}.{k}/')
            return path
        if '__dict__' in a and '__dict__' in b:
            la, lb = a['__dict__'], b['__dict__']
            if len(la) != len(lb):
                return path + '{len}'
            for (ka, va), (kb, vb) in zip(la, lb):
                if ka != kb:
                    return path + '{key}'
                if va != vb:
                    return first_diff(va, vb, path + '{}/')
        return path + '<dict>'
    if isinstance(a, list):
        if len(a) != len(b):
            return path + '[len]'
        for x, y in zip(a, b):
            if x != y:
                return first_diff(x, y, path + '[]/')
        return path
    return path + f'<{_tn(a)}:value>'


def _tn(x):
    if isinstance(x, dict) and '__class__' in x:
        return x['__class__']
    if isinstance(x, (list, tuple)) and x and isinstance(x[0], str) and x[0] in ('int', 'float', 'bool'):
        return x[0]
    return type(x).__name__


# --------------------------------------------------------------------------------------------
# localisation: smallest failing expression node
# --------------------------------------------------------------------------------------------

def subnodes(A):
    from mindsdb_sql.parser.ast.base import ASTNode
    out = []
    for path, o in monitors.walk(A):
        if isinstance(o, ASTNode) and o is not A:
            out.append((path, o))
    return out


def node_size(n):
    return sum(1 for _ in monitors.walk(n))


STATEMENT_CLASSES = ('Select', 'Union', 'Intersect', 'Except')
EXPR_CLASSES = ('Identifier', 'Constant', 'NullConstant', 'Latest', 'Star', 'BinaryOperation', 'UnaryOperation',
                'BetweenOperation', 'Function', 'WindowFunction', 'Case', 'TypeCast', 'Tuple', 'Parameter', 'Variable',
                'Interval', 'Exists', 'NotExists')


def isolate(N, dialect):
    """Round trip of node N on its own, embedded in the smallest statement that can hold it.
    Returns None if it holds or if N cannot be isolated, else (kind, detail)."""
    cls = type(N).__name__
    try:
        s = N.to_string()
    except Exception as e:
        return 'print-raises', {}
    if cls in STATEMENT_CLASSES:
        if getattr(N, 'alias', None) is not None or getattr(N, 'parentheses', False):
            wrapped, get = 'SELECT * FROM ' + s, (lambda t: t.from_table)
        else:
            wrapped, get = s, (lambda t: t)
    elif cls in EXPR_CLASSES:
        wrapped, get = 'SELECT ' + s, (lambda t: t.targets[0])
    elif cls in ('Join', 'NativeQuery'):
        wrapped, get = 'SELECT * FROM ' + s, (lambda t: t.from_table)
    elif cls == 'OrderBy':
        wrapped, get = 'SELECT * FROM t ORDER BY ' + s, (lambda t: t.order_by[0])
    else:
        return None
    try:
        T = get(_parse(wrapped, dialect))
    except Exception:
        return 'reparse-rejected', {'reject_at': reject_at(wrapped, dialect)}
    # the node as re-read in isolation must print to the same text and have the same structure
    sa, sb = monitors.struct(N), monitors.struct(T)
    if sa != sb:
        return 'tree-differs', {'diff': first_diff(sa, sb)}
    try:
        if T.to_string() != s:
            return 'string-differs', {}
    except Exception:
        return 'reprint-raises', {}
    return None


def value_types(v, depth=0):
    """Type vocabulary of a parameter value, e.g. dict[NoneType,str]."""
    if type(v).__name__ == 'Identifier':
        return 'Identifier'
    if isinstance(v, dict):
        inner = sorted({value_types(x, depth + 1) for x in v.values()})
        return 'dict[' + ','.join(inner) + ']' if depth < 2 else 'dict'
    if isinstance(v, (list, tuple)):
        inner = sorted({value_types(x, depth + 1) for x in v})
        return 'list[' + ','.join(inner) + ']' if depth < 2 else 'list'
    if isinstance(v, str):
        f = 'str'
        if not v.isascii():
            f += '!nonascii'
        if "'" in v:
            f += '!quote'
        if '"' in v:
            f += '!dquote'
            if v[:1] == '"' or v[-1:] == '"':
                f += '!dq-edge'     # a double quote as first / last character: what a reader that strips the delimiters loses
        if '\\' in v:
            f += '!backslash'
        if v == '':
            f += '!empty'
        return f
    return type(v).__name__


def reduce_params(A, dialect, kind):
    """For a statement-level failure: the dict-valued fields (USING / SET / PARAMETERS options) whose removal makes the
    round trip hold, with entries minimised (keeping at least one) while the same failure kind persists.
    Returns 'field:value-types' or ''."""
    import copy
    fields = [k for k, v in vars(A).items() if isinstance(v, dict) and v]
    culprit = []
    for f in fields:
        ok = False
        for empty in (None, {}):
            B = copy.deepcopy(A)
            setattr(B, f, empty)
            try:
                if roundtrip(B, dialect) is None:
                    ok = True
                    break
            except Exception:
                pass
        if not ok:
            continue            # does not hold even without this field: something else is responsible
        B = copy.deepcopy(A)
        d = getattr(B, f)
        for key in list(d.keys()):
            if len(d) <= 1:
                break
            saved = d.pop(key)
            r = roundtrip(B, dialect)
            if r is None or r[0] != kind:
                d[key] = saved      # needed for the failure
        culprit.append(f + ':' + '|'.join(sorted({value_types(v) for v in d.values()})))
    return ';'.join(culprit)


def offending_option(A, printed, dialect):
    """For a printed statement that is rejected: the option `key=value` in which the parser gives up, described as
    'option <field|param>:<value types>'; '' if the rejection is not inside an option list."""
    with monitors.monitored_parse() as rec:
        try:
            _parse(printed, dialect)
            return ''
        except Exception:
            pass
    if not rec.error_calls or rec.error_calls[0]['eof']:
        pos = len(printed)
    else:
        pos = rec.error_calls[0]['index']
    toks = [t for t in rec.tokens if t[2] < pos]
    key = None
    for i in range(len(toks) - 1, 0, -1):
        if toks[i][0] == 'EQUALS':
            # key may be dotted: collect ID(.ID)* backwards
            j = i - 1
            parts = [printed[toks[j][2]:toks[j][3]]]
            while j >= 2 and toks[j - 1][0] == 'DOT':
                j -= 2
                parts.insert(0, printed[toks[j][2]:toks[j][3]])
            key = '.'.join(x.strip('`') for x in parts)
            break
    if key is None:
        return ''
    for f, v in vars(A).items():
        if isinstance(v, dict):
            for k2, v2 in v.items():
                if str(k2).lower() == key.lower():
                    return 'option param:' + value_types(v2)
    for f, v in vars(A).items():
        if f.lower() == key.lower():
            return 'option field:' + value_types(v)
    return 'option ?'


RAW_FIELDS = ('query_str', 'if_query_str', 'query')


def raw_query_state(N, dialect):
    """'unlexable' if a stored raw inner query of N cannot even be tokenised (C16's defect showing through)."""
    for f in RAW_FIELDS:
        v = getattr(N, f, None)
        if isinstance(v, str):
            try:
                monitors.lex_all(v, dialect)
            except Exception:
                return 'stored-raw-query-unlexable'
    return ''


def features(N):
    """Finite feature bits of a leaf-ish node: what about its content may need quoting/escaping."""
    cls = type(N).__name__
    f = []
    if cls == 'Identifier':
        from mindsdb_sql.parser.ast.select.identifier import get_reserved_words
        try:
            reserved = {w.upper() for w in get_reserved_words()}
        except Exception:
            reserved = set()
        import mindsdb_sql.parser.dialects.mindsdb.lexer as L
        toks = {t.upper() for t in L.MindsDBLexer.tokens}
        for p in N.parts:
            if not isinstance(p, str):
                f.append('star-part' if p is not N.parts[-1] else 'star-last')
                continue
            if p == '':
                f.append('empty')
            elif re.fullmatch(r'[A-Za-z_][A-Za-z_0-9]*', p):
                if p.upper() in reserved:
                    f.append('reserved-word')
                elif p.upper() in toks or p.upper().replace(' ', '_') in toks:
                    f.append('token-word')
            else:
                if re.fullmatch(r'[0-9]+', p):
                    f.append('digits')
                elif re.match(r'[0-9]', p):
                    f.append('digit-first')
                if '`' in p:
                    f.append('backquote')
                if '.' in p:
                    f.append('dot')
                if ' ' in p and p.upper().replace(' ', '_') in toks:
                    f.append('token-phrase')
                elif re.search(r'[^A-Za-z0-9_`. ]', p) or ' ' in p:
                    f.append('special-char')
    elif cls in ('Constant', 'NullConstant', 'Last'):
        v = getattr(N, 'value', None)
        f.append('type:' + type(v).__name__)
        if isinstance(v, str):
            if "'" in v:
                f.append('quote')
            if '"' in v:
                f.append('dquote')
            if '\\' in v:
                f.append('backslash')
            if '\n' in v:
                f.append('newline')
            if not getattr(N, 'with_quotes', True):
                f.append('unquoted')
    elif cls == 'Variable':
        v = str(getattr(N, 'value', ''))
        if not re.fullmatch(r'[A-Za-z_.$]+', v):
            f.append('needs-quoting')
    if getattr(N, 'alias', None) is not None:
        a = N.alias
        try:
            ap = a.parts[0]
            if not isinstance(ap, str) or not re.fullmatch(r'[A-Za-z_][A-Za-z_0-9]*', ap):
                f.append('alias-special')
            else:
                from mindsdb_sql.parser.ast.select.identifier import get_reserved_words
                if ap.upper() in {w.upper() for w in get_reserved_words()}:
                    f.append('alias-special')
        except Exception:
            f.append('alias-odd')
    return '+'.join(sorted(set(f)))


def localise(A, dialect, kind, detail):
    """Mechanism signature of a failing statement."""
    cands = []
    for path, N in subnodes(A):
        r = isolate(N, dialect)
        if r is not None:
            cands.append((node_size(N), path, N, r))
    cands.sort(key=lambda c: (c[0], c[1]))
    stmt = type(A).__name__
    if cands:
        size, path, N, (k2, d2) = cands[0]
        sig = {'kind': k2, 'node': type(N).__name__, 'feat': features(N) or raw_query_state(N, dialect), 'dialect_class': dclass(dialect)}
        if k2 == 'tree-differs':
            sig['diff'] = d2.get('diff', '')[:120]
        if k2 == 'reparse-rejected':
            sig['reject_at'] = d2.get('reject_at', '?')
        return sig, {'node_path': path, 'node_text': _safe_str(N)[:200]}
    sig = {'kind': kind, 'node': stmt, 'feat': 'statement-level', 'dialect_class': dclass(dialect)}
    if stmt == 'Show' and getattr(A, 'name', None) is not None:
        sig['feat'] = 'statement-level show-with-name'
    if stmt == 'Insert' and getattr(A, 'columns', None):
        # executable model of C01-F21 / F22: a column of the list is stored as a plain word that the dialect's lexer reads as a keyword
        # (the mysql / sqlite grammars store a quoted name without its quotes; the printer re-quotes only what is not a plain word)
        try:
            for col in A.columns:
                nm = str(col.name)
                toks = monitors.lex_all(nm, dialect) if nm and '`' not in nm else []
                if toks and (len(toks) > 1 or toks[0][0] != 'ID'):
                    sig['feat'] = 'statement-level insert-column-stored-bare-reads-as-keyword'
                    break
        except Exception:
            pass
    if kind == 'tree-differs':
        sig['diff'] = detail.get('diff', '')[:120]
    if kind == 'reparse-rejected':
        sig['reject_at'] = detail.get('reject_at', '?')
    try:
        red = reduce_params(A, dialect, kind)
    except Exception as e:
        red = f'reduction-failed:{type(e).__name__}'
    if red:
        sig['feat'] = 'params ' + red
    if kind == 'reparse-rejected' and detail.get('printed'):
        try:
            oo = offending_option(A, detail['printed'], dialect)
        except Exception as e:
            oo = ''
        if oo:
            sig['feat'] = oo
    rq = raw_query_state(A, dialect)
    if rq:
        sig['feat'] = rq
        sig.pop('diff', None)
        sig.pop('reject_at', None)
    return sig, {}


def dclass(dialect):
    return 'mindsdb' if dialect == 'mindsdb' else 'mysql/sqlite'


def _safe_str(n):
    try:
        return n.to_string()
    except Exception as e:
        return f'<{type(e).__name__}>'


def check_tree(A, dialect):
    r = roundtrip(A, dialect)
    if r is None:
        return None
    kind, detail = r
    sig, loc = localise(A, dialect, kind, detail)
    detail.update(loc)
    detail['statement_kind'] = kind
    return sig, detail


def run_shard(ctx):
    from mindsdb_sql.parser.ast.base import ASTNode
    monitors.install_parser_monitors()
    acc = ctx.acc
    wl = Workload(ctx, **SIZES[ctx.tier])
    for idx, label, dialect, text in wl.cases():
        if ctx.out_of_time():
            acc.notes.append(f'shard {ctx.shard}: time budget hit at case {idx}')
            break
        with monitors.monitored_parse() as rec:
            try:
                A = _parse(text, dialect)
            except Exception:
                A = None
        acc.ev()
        if not isinstance(A, ASTNode):
            acc.count('rejected_first_parse')
            continue
        acc.count('accepted')
        acc.count('class:' + label.split(':')[0])
        acc.add('dialects', dialect)
        acc.add('statement_classes', type(A).__name__)
        for n in set(rec.reductions):
            acc.add('productions:' + dialect, n)
        if len(rec.tokens) >= 4:
            acc.key(dialect, tuple(t[0] for t in rec.tokens))
        v = check_tree(A, dialect)
        if v is not None:
            sig, detail = v
            detail.update({'dialect': dialect, 'text': text[:500], 'class': label, 'case': idx, 'via': 'parse'})
            acc.fail(sig, detail)
        else:
            # the copy must round-trip as well
            try:
                C = A.copy()
                acc.count('copies_checked')
                v2 = check_tree(C, dialect)
                if v2 is None and monitors.struct(C) != monitors.struct(A):
                    v2 = ({'kind': 'copy-differs', 'node': type(A).__name__, 'feat': '', 'dialect_class': dclass(dialect),
                           'diff': first_diff(monitors.struct(A), monitors.struct(C))[:120]}, {})
            except Exception as e:
                v2 = ({'kind': 'copy-raises', 'node': type(A).__name__, 'feat': type(e).__name__, 'dialect_class': dclass(dialect)},
                      {'error': str(e)[:200]})
            if v2 is not None:
                sig, detail = v2
                sig = dict(sig, via='copy')
                detail.update({'dialect': dialect, 'text': text[:500], 'class': label, 'case': idx, 'via': 'copy'})
                acc.fail(sig, detail)
            elif len(acc.samples) < 5 and idx % 17 == 0 and len(rec.tokens) > 8:
                acc.sample({'dialect': dialect, 'text': text[:200], 'printed': A.to_string()[:200], 'round_trip': 'ok', 'class': label})


def coverage_extra(m, tier):
    total = {}
    try:
        for d, P in monitors.parser_classes().items():
            total[d] = len(P._grammar.Productions) - 1
    except Exception:
        pass
    return {'productions_reduced_by_accepted_inputs': {d: f"{len(m['sets'].get('productions:' + d, ()))}/{total.get(d, '?')}" for d in DIALECTS}}


def replay(path):
    import json
    w = json.load(open(path))
    bad = 0
    for wit in w['witnesses']:
        A = _parse(wit['text'], wit['dialect'])
        if wit.get('via') == 'copy':
            A = A.copy()
        v = check_tree(A, wit['dialect'])
        print(repr(wit['text'])[:200], '->', v)
        bad += v is not None
    return 1 if bad else 0
