"""C04 - string, number and identifier tokens keep exactly the value the SQL text denotes.

Parse direction: (value, spelling) pairs are written into several statement positions; the Constant /
Identifier / Variable found in the tree must hold exactly the value.  Print direction: nodes built directly
from a value are printed and the text is decoded by an independent reference codec of the dialect's lexical
rule (not by the library's lexer).  Failing values are shrunk character by character before classification."""
import itertools
import re

from vf import core, monitors

ID = 'C04'
LEVEL = 'exploration'
TECHNIQUE = 'runtime monitor: generated (value, spelling) pairs through parse_sql / to_string, judged by independent literal codecs; failing values shrunk to a minimal witness'
RULE = ('strings: all strings of length <= 3 (quick) / <= 4 (thorough) over {a, \', ", \\, space, %, e-acute} plus random unicode, '
        'x spellings {single-quoted with doubled quotes, single-quoted with backslash escapes, double-quoted} x 5 positions x 3 dialects; '
        'integers of 1-30 digits, leading zeros, decimals; identifier paths of 1-4 parts x {plain, back-quoted, dot/space/keyword/'
        'digits-first}; variables; both directions (parse, print); non-trivial = value contains a quote, backslash, dot, keyword '
        'or non-ASCII character; distinct by (direction, kind, spelling, value, dialect)')
RULE += '; strings spelled like keywords / numbers / parameters, string literals as option values (USING, PARAMETERS, lists, objects); bare words that begin or end with a keyword of any lexer; also: CR/LF/control/zero-width characters in literals and names, blank-edged names, names identified by a case mapping (both orders in one process), 17-digit and exponent-range decimals read back by the library'
ASSUMPTIONS = ['mindsdb dialect: doubled quote -> one quote, \\\' \\" \\\\ -> the escaped character; other backslash pairs are not judged',
               'mysql/sqlite dialects of this library: only the standard doubled-quote rule is demanded',
               'exponent notation (1e3) is outside "integers/decimals" and not judged',
               'identifier parts containing a back-quote are not generated (no spelling exists for them)']
BUDGET = {'quick': (8, 240), 'thorough': (16, 1800)}
DIALECTS = ('mindsdb', 'mysql', 'sqlite')
ALPHA = ['a', "'", '"', '\\', ' ', '%', 'é']

STR_POSITIONS = {
    'select': ('SELECT {L}', lambda t: t.targets[0]),
    'where': ('SELECT * FROM t WHERE a = {L}', lambda t: t.where.args[1]),
    'in': ('SELECT * FROM t WHERE a IN ({L}, 1)', lambda t: t.where.args[1].items[0]),
    'insert': ('INSERT INTO t (a) VALUES ({L})', lambda t: t.values[0][0]),
    'func': ('SELECT f({L})', lambda t: t.targets[0].args[0]),
}
# string literals as option values (mindsdb dialect): kept as plain Python strings in dicts / lists, not as Constant nodes
OPTION_POSITIONS = {
    'using-create-model': ('CREATE MODEL proj.m PREDICT y USING engine = \'e\', k = {L}', lambda t: t.using['k']),
    'using-select': ('SELECT * FROM proj.m USING k = {L}', lambda t: t.using['k']),
    'using-list': ('CREATE MODEL proj.m PREDICT y USING k = [{L}, 1]', lambda t: t.using['k'][0]),
    'using-object': ('CREATE MODEL proj.m PREDICT y USING k = {{"j": {L}}}', lambda t: t.using['k']['j']),
    'database-parameters': ('CREATE DATABASE d WITH ENGINE = \'x\', PARAMETERS = {{"k": {L}}}', lambda t: t.parameters['k']),
    'agent-using': ('CREATE AGENT a USING model = \'m\', k = {L}', lambda t: t.params['k']),
}
STR_POSITIONS.update(OPTION_POSITIONS)
# strings spelled like tokens of another kind (keywords, numbers, parameters, names, comments)
LOOKALIKES = ['null', 'NULL', 'Null', 'true', 'TRUE', 'false', 'False', '1', '1.5', '-1', '1e5', '007', 'select', 'latest', 'LATEST', '?', '*', '@v', 'a.b', '`a`',
              '--', '/*x*/', '0x10', 'NaN', 'inf', 'None', 'default', 'current_date', 'interval 1 day', 'a, b', '[1]', '{"a": 1}', 'DATE', "it's null"]


def floors(tier):
    return {'parse_checked': 3000, 'print_checked': 1500, 'len:kinds': 4, 'len:spellings': 3, 'len:dialects': 3}


# ---------------------------------------------------------------------------------------------
# spellings (how a user writes value v) and reference codecs (what a text denotes)
# ---------------------------------------------------------------------------------------------

def spell(v, style):
    if style == 'sq-doubled':      # standard SQL: only the quote is special; in a backslash-escape dialect a backslash is written twice
        return "'" + v.replace('\\', '\\\\').replace("'", "''") + "'"
    if style == 'sq-plain':        # standard SQL with backslash as an ordinary character (mysql/sqlite dialects of this library)
        return "'" + v.replace("'", "''") + "'"
    if style == 'sq-backslash':
        return "'" + v.replace('\\', '\\\\').replace("'", "\\'") + "'"
    if style == 'dq-backslash':
        return '"' + v.replace('\\', '\\\\').replace('"', '\\"') + '"'
    if style == 'dq-doubled':
        return '"' + v.replace('\\', '\\\\').replace('"', '""') + '"'
    raise ValueError(style)


def decode(text, i, backslash, amb=None):
    """Reference codec: decode the literal starting at text[i] (a quote character).  Returns (value, end) or
    (None, reason).  backslash=True: \\' \\" \\\\ are escapes; any other backslash pair is 'ambiguous'."""
    q = text[i]
    j = i + 1
    out = []
    n = len(text)
    while True:
        if j >= n:
            return None, 'unterminated'
        c = text[j]
        if backslash and c == '\\':
            if j + 1 >= n:
                return None, 'unterminated'
            nx = text[j + 1]
            if nx in ('\\', "'", '"'):
                out.append(nx)
                j += 2
                continue
            if amb == 'keep':
                out.append(c + nx)
                j += 2
                continue
            if amb == 'drop':
                out.append(nx)
                j += 2
                continue
            return None, 'ambiguous-escape'
        if c == q:
            if j + 1 < n and text[j + 1] == q:
                out.append(q)
                j += 2
                continue
            return ''.join(out), j + 1
        out.append(c)
        j += 1


def defect_models(text):
    """Executable model of the listed parse-direction defect of the mindsdb dialect (finding C04-F1): the lexer
    decodes a quoted token with a chain of str.replace over the WHOLE token (quotes included, so an escape can pair
    with the closing quote, and a quote produced by one replace can be consumed by the next), never decodes an escaped
    backslash, and the parser action then strips every boundary quote character."""
    q = text[0]
    v = text.replace('\\"', '"').replace("\\'", "'")
    if q == "'":
        v = v.replace("''", "'")
    return {'replace-chain+strip': v.strip(q)}


def features(v):
    """Where the lexically special characters sit in the value: e.g. 'backslash@end+quote@mid'.  Other characters
    do not matter to any quoting rule and are reported only when nothing special is present."""
    f = set()
    if v == '':
        return 'empty'
    for ch, name in (("'", 'quote'), ('"', 'dquote'), ('\\', 'backslash')):
        for i, c in enumerate(v):
            if c == ch:
                if i == 0:
                    f.add(name + '@start')
                if i == len(v) - 1:
                    f.add(name + '@end')
                if 0 < i < len(v) - 1:
                    f.add(name + '@mid')
    if not f:
        if '`' in v:
            f.add('backtick')   # the name quote of the library's own text: nothing may treat it as one inside a literal
        elif any(ord(c) > 127 for c in v):
            f.add('nonascii')
        elif '\n' in v:
            f.add('newline')
        else:
            f.add('plain')
    return '+'.join(sorted(f))


def nontrivial(v):
    return v == '' or any(c in v for c in '\'"\\.') or any(ord(c) > 127 for c in v)


def shrink(v, fails, sig_of, explained):
    """Greedy character deletion while the same failure kind persists AND the smaller witness is not already
    explained by a listed finding (so a new defect cannot hide behind a known one)."""
    kind = fails(v)
    changed = True
    while changed and len(v) > 0:
        changed = False
        for i in range(len(v)):
            w = v[:i] + v[i + 1:]
            if fails(w) == kind and (explained(sig_of(v)) or not explained(sig_of(w))):
                v = w
                changed = True
                break
    return v


# ---------------------------------------------------------------------------------------------
# checks
# ---------------------------------------------------------------------------------------------

def node_value(n):
    if n is None or isinstance(n, (str, bool, int, float)):
        return n                # option values are plain Python values
    cls = type(n).__name__
    if cls == 'Constant':
        return n.value
    if cls == 'Identifier' and len(n.parts) == 1:
        return n.parts[0]
    return ('<' + cls + '>',)


def parse_string(dialect, pos, style, v):
    """None if ok else failure kind."""
    from mindsdb_sql import parse_sql
    tmpl, get = STR_POSITIONS[pos]
    sql = tmpl.format(L=spell(v, style))
    try:
        t = parse_sql(sql, dialect)
    except Exception as e:
        return 'rejected:' + type(e).__name__
    try:
        got = node_value(get(t))
    except Exception:
        return 'literal-not-one-node'
    if got != v:
        if isinstance(got, tuple):
            return 'literal-not-one-node'
        if dialect == 'mindsdb' and isinstance(got, str):
            m = defect_models(spell(v, style))
            hit = sorted((k for k, val in m.items() if val == got and k != 'spec'), key=len)
            if hit:
                return 'wrong-value model:' + hit[0]
        return 'wrong-value'
    return None


def print_string(dialect, v, pos):
    """Constant(v) placed in a tree, printed; the text is decoded by the reference codec."""
    from mindsdb_sql.parser.ast import Constant, Select, Identifier, BinaryOperation, Function, Insert
    marker = 'QQMARK'
    if pos == 'select':
        tree = Select(targets=[Constant(v), Identifier(marker)])
    elif pos == 'where':
        tree = Select(targets=[Identifier(marker)], from_table=Identifier('t'), where=BinaryOperation('=', args=[Constant(v), Identifier(marker)]))
    elif pos == 'func':
        tree = Select(targets=[Function('f', args=[Constant(v), Identifier(marker)])])
    else:
        tree = Insert(table=Identifier('t'), columns=[Identifier('a'), Identifier('b')], values=[[Constant(v), Constant(7)]])
    try:
        s = tree.to_string()
    except Exception as e:
        return 'print-raises:' + type(e).__name__, None
    i = s.find("'")
    if i < 0:
        return 'no-literal', s
    val, end = decode(s, i, backslash=(dialect == 'mindsdb'))
    if val is None:
        if end == 'ambiguous-escape':
            return None, s
        return 'printed-literal-' + end + model_print(v, s, i), s
    if val != v:
        return 'printed-denotes-other-value' + model_print(v, s, i), s
    return None, s


def model_print(v, s, i):
    """Listed print-direction defect: quotes become \\' and nothing else is escaped."""
    lit = "'" + v.replace("'", "\\'") + "'"
    return ' model:quote-backslashed-only' if s[i:i + len(lit)] == lit else ''


def run_shard(ctx):
    from mindsdb_sql import parse_sql
    acc = ctx.acc
    tier = ctx.tier
    maxlen = 3 if tier == 'quick' else 4
    values = ['']
    for n in range(1, maxlen + 1):
        values += [''.join(p) for p in itertools.product(ALPHA, repeat=n)]
    # line ends and control characters inside a literal are content, not layout
    values += ['\r', '\n', '\r\n', 'a\r\nb', 'a\rb', 'a\nb', '\r\n\r\n', ' \r', '\t', 'a\tb', '\x0b', '\x0c', 'a\x1fb', '\x7f', '\u2028', '\u00a0', 'e\u0301', '\ufeffa']
    r = ctx.sub_rng('unicode-values')
    pool = ALPHA * 3 + ['b', 'Z', '0', ';', ':', '-', '/', '*', '\n', '\t', '\r', '漢', '🙂', 'ß', '.', ',', '(', ')', '`', '@', '?']
    for _ in range(400 if tier == 'quick' else 4000):
        values.append(''.join(r.choice(pool) for _ in range(r.randint(3, 40 if r.random() < 0.2 else 8))))
    values += LOOKALIKES
    positions = [p_ for p_ in STR_POSITIONS if p_ not in OPTION_POSITIONS]
    opt_positions = list(OPTION_POSITIONS)
    idx = -1
    # ---- strings, parse direction -------------------------------------------------------------
    for vi, v in enumerate(values):
        for dialect in DIALECTS:
            styles = ['sq-doubled', 'sq-backslash', 'dq-backslash', 'dq-doubled'] if dialect == 'mindsdb' else ['sq-plain']
            for style in styles:
                idx += 1
                if not ctx.mine(idx):
                    continue
                if ctx.out_of_time():
                    break
                if style == 'dq-doubled' and '"' not in v:
                    continue
                if style == 'sq-backslash' and "'" not in v:
                    continue
                pos = positions[(vi + idx) % len(positions)] if len(v) > 1 else positions[idx % len(positions)]
                plist = positions if len(v) <= 1 else [pos]
                if v in LOOKALIKES:
                    plist = positions + (opt_positions if dialect == 'mindsdb' else [])
                elif dialect == 'mindsdb' and style != 'dq-doubled':
                    plist = plist + [opt_positions[(vi + idx) % len(opt_positions)]]
                for p in plist:
                    acc.ev()
                    acc.count('parse_checked')
                    acc.add('kinds', 'string')
                    acc.add('spellings', style.split('-')[0] if dialect != 'mindsdb' else style)
                    acc.add('dialects', dialect)
                    if nontrivial(v):
                        acc.key('parse', 'string', style, v, dialect)
                    k = parse_string(dialect, p, style, v)
                    if k is None:
                        if len(acc.samples) < 3 and nontrivial(v) and idx % 29 == 0:
                            acc.sample({'direction': 'parse', 'dialect': dialect, 'sql': STR_POSITIONS[p][0].format(L=spell(v, style)), 'value': v, 'ok': True})
                        continue

                    def fails(w, _p=p, _style=style, _d=dialect):
                        return parse_string(_d, _p, _style, w)

                    def sig_of(w, _style=style, _d=dialect, _k=k):
                        return {'direction': 'parse', 'kind': 'string', 'dialect_class': 'mindsdb' if _d == 'mindsdb' else 'mysql/sqlite',
                                'spelling': _style, 'failure': _k, 'feat': features(w)}
                    w = shrink(v, fails, sig_of, ctx.explained)
                    sig = sig_of(w)
                    acc.fail(sig, {'dialect': dialect, 'position': p, 'value': v, 'shrunk': w,
                                   'sql': STR_POSITIONS[p][0].format(L=spell(w, style))})
    # ---- strings, print direction -------------------------------------------------------------
    for vi, v in enumerate(values):
        idx += 1
        if not ctx.mine(idx) or ctx.out_of_time():
            continue
        for dialect in ('mindsdb', 'mysql'):
            p = ['select', 'where', 'func', 'insert'][(vi + (dialect == 'mysql')) % 4]
            acc.ev()
            acc.count('print_checked')
            if nontrivial(v):
                acc.key('print', 'string', v, dialect)
            k, s = print_string(dialect, v, p)
            if k is None:
                continue

            def failsp(w, _p=p, _d=dialect):
                return print_string(_d, w, _p)[0]

            def sig_ofp(w, _d=dialect, _k=k):
                return {'direction': 'print', 'kind': 'string', 'dialect_class': 'mindsdb' if _d == 'mindsdb' else 'mysql/sqlite',
                        'spelling': 'to_string', 'failure': _k, 'feat': features(w)}
            w = shrink(v, failsp, sig_ofp, ctx.explained)
            sig = sig_ofp(w)
            acc.fail(sig, {'dialect': dialect, 'position': p, 'value': v, 'shrunk': w, 'printed': print_string(dialect, w, p)[1]})
    # ---- strings printed by OTHER printers than Constant's: typed literals, option values of every command ------------------
    # (mindsdb dialect; values without a backslash - what a backslash does to the library's literals is C04-F6 whatever the position)
    from mindsdb_sql.parser import ast as A_
    # (no control characters, no double quotes, no quote at either end: those are the listed decoding mechanisms F1 / F4 again, whoever prints)
    rt_vals = LOOKALIKES + ['Ünï', '漢字', 'a b', 'é', 'x\u00a0y', '%s', 'a;b', "it's", "five o'clock", "a', 'b", '', ' ', '{', '[x]', '€', '\u00df', 'Ω≈ç√', '日本語 テキスト', 'emoji 🙂']
    rt_positions = {
        'typed-literal': (lambda v: A_.Select(targets=[A_.TypeCast(type_name='DATE', arg=A_.Constant(v)), A_.Identifier('zz')]), lambda t: t.targets[0].arg.value),
        'cast': (lambda v: A_.Select(targets=[A_.TypeCast(type_name='varchar', arg=A_.Constant(v), precision=[10])]), lambda t: t.targets[0].arg.value),
    }
    for name_, (tmpl_, get_) in OPTION_POSITIONS.items():
        def mk(v, _t=tmpl_, _g=get_):
            t_ = parse_sql(_t.format(L="'QQ'"), 'mindsdb')
            # put the value where the parser put 'QQ'
            for path, o in monitors.walk(t_):
                if isinstance(o, dict):
                    for k_, v_ in list(o.items()):
                        if v_ == 'QQ':
                            o[k_] = v
                        elif isinstance(v_, list) and 'QQ' in v_:
                            o[k_] = [v if x == 'QQ' else x for x in v_]
                        elif isinstance(v_, dict) and 'QQ' in v_.values():
                            o[k_] = {kk: (v if x == 'QQ' else x) for kk, x in v_.items()}
            return t_
        rt_positions['print:' + name_] = (mk, get_)
    for vi, v in enumerate(rt_vals):
        for pname, (mk_, get_) in rt_positions.items():
            idx += 1
            if not ctx.mine(idx) or ctx.out_of_time():
                continue
            acc.ev()
            acc.count('print_checked')
            acc.count('strings_printed_by_other_printers')
            try:
                tree_ = mk_(v)
                txt_ = tree_.to_string()
            except Exception as e:
                acc.fail({'direction': 'print', 'kind': 'string', 'dialect_class': 'mindsdb', 'spelling': 'to_string', 'failure': 'print-raises:' + type(e).__name__, 'position': pname,
                          'feat': features(v)}, {'value': v, 'error': str(e)[:200]})
                continue
            try:
                back = get_(parse_sql(txt_, 'mindsdb'))
                ok_ = (back == v and type(back) is type(v))
            except Exception as e:
                back, ok_ = 'rejected:' + type(e).__name__, False
            if not ok_:
                acc.fail({'direction': 'print', 'kind': 'string', 'dialect_class': 'mindsdb', 'spelling': 'to_string', 'failure': 'printed-not-read-back', 'position': pname,
                          'feat': features(v)}, {'value': v, 'printed': txt_[:300], 'read_back': repr(back)[:120]})
    # ---- numbers -------------------------------------------------------------------------------
    rn = ctx.sub_rng('numbers')
    nums = ['0', '1', '7', '10', '007', '000', '2147483648', '9223372036854775808', '123456789012345678901234567890',
            '0.5', '1.0', '3.14', '00.50', '10.250', '123456789.123456789', '0.000001', '99999999999999999999.5',
            # decimals whose float needs 17 significant digits; magnitudes Python writes with an exponent
            '0.30000000000000004', '1.0000000000000002', '123456.78901234567', '0.1234567890123456789', '9007199254740993.0',
            '0.00001', '0.0000001', '0.000000000000001234', '10000000000000000.0', '123456789012345678901234.5', '1' + '0' * 40 + '.0',
            '0.' + '0' * 30 + '7', '4.9406564584124654', '2.2250738585072014', '179769313486231570000.0', '0.1', '0.2', '0.7', '1.1', '2.675']
    for _ in range(150 if tier == 'quick' else 1500):
        d = rn.randint(1, 30)
        s = ''.join(rn.choice('0123456789') for _ in range(d))
        if rn.random() < 0.4:
            s += '.' + ''.join(rn.choice('0123456789') for _ in range(rn.randint(1, 12)))
        nums.append(s)
    from decimal import Decimal
    for ni, s in enumerate(nums):
        for dialect in DIALECTS:
            for neg in (False, True):
                idx += 1
                if not ctx.mine(idx):
                    continue
                acc.ev()
                acc.count('parse_checked')
                acc.add('kinds', 'number')
                p = positions[(ni + neg) % len(positions)]
                tmpl, get = STR_POSITIONS[p]
                sql = tmpl.format(L=('-' if neg else '') + s)
                acc.key('parse', 'number', s, neg, dialect)
                isint = '.' not in s
                sig = None
                try:
                    n = get(parse_sql(sql, dialect))
                    if type(n).__name__ == 'UnaryOperation':
                        val = -n.args[0].value
                    else:
                        val = n.value
                    exp = int(s) if isint else float(s)
                    if neg:
                        exp = -exp
                    if isint:
                        ok = (type(val) is int and val == exp)
                    else:
                        ok = isinstance(val, float) and (val == exp)
                    if not ok:
                        sig = {'direction': 'parse', 'kind': 'integer' if isint else 'decimal', 'failure': 'wrong-value',
                               'feat': ('neg+' if neg else '') + ('leading-zero' if s.startswith('0') and len(s) > 1 else 'plain') + ('+long' if len(s) > 18 else '')}
                        det = {'sql': sql, 'dialect': dialect, 'got': repr(val), 'expected': repr(exp)}
                    else:
                        # print direction: the tree's own text must denote the same number
                        from mindsdb_sql.parser.ast import Constant
                        txt = Constant(exp).to_string()
                        acc.count('print_checked')
                        try:
                            back = Decimal(txt)
                            okp = (back == Decimal(repr(exp)) if not isint else int(back) == exp)
                        except Exception:
                            okp = False
                        if not okp:
                            sig = {'direction': 'print', 'kind': 'integer' if isint else 'decimal', 'failure': 'printed-denotes-other-value',
                                   'feat': 'long' if len(s) > 18 else 'plain'}
                            det = {'value': repr(exp), 'printed': txt}
                        else:
                            # ... and the library itself must read the printed text back as that number
                            acc.count('number_readbacks')
                            try:
                                n2 = parse_sql('SELECT ' + txt + ' FROM t', dialect).targets[0]
                                if type(n2).__name__ == 'UnaryOperation' and type(n2.args[0]).__name__ == 'Constant':
                                    v2 = -n2.args[0].value
                                else:
                                    v2 = n2.value if type(n2).__name__ == 'Constant' else ('not-a-constant', type(n2).__name__)
                                okr = (type(v2) is type(exp) and v2 == exp)
                            except Exception as e2:
                                v2, okr = 'rejected:' + type(e2).__name__, False
                            if not okr:
                                sig = {'direction': 'print', 'kind': 'integer' if isint else 'decimal', 'failure': 'printed-not-read-back',
                                       'feat': ('exponent' if 'e' in repr(exp) else 'plain') + ('+long' if len(s) > 18 else '')}
                                det = {'value': repr(exp), 'printed': txt, 'read_back': repr(v2)[:80], 'dialect': dialect}
                            else:
                                # ... and inside a statement of another kind (each statement class prints its own cells): one position per number
                                from mindsdb_sql.parser import ast as A_
                                posn = ['insert', 'update', 'in', 'func', 'where', 'insert-2nd-row'][(ni + neg) % 6]
                                c_ = A_.Constant(exp)
                                tree_, get_ = {
                                    'insert': (lambda: A_.Insert(table=A_.Identifier('t'), columns=[A_.Identifier('a'), A_.Identifier('b')], values=[[c_, A_.Constant(7)]]), lambda t: t.values[0][0]),
                                    'insert-2nd-row': (lambda: A_.Insert(table=A_.Identifier('t'), columns=[A_.Identifier('a')], values=[[A_.Constant(1)], [c_]]), lambda t: t.values[1][0]),
                                    'update': (lambda: A_.Update(table=A_.Identifier('t'), update_columns={'a': c_}, where=A_.BinaryOperation('=', args=[A_.Identifier('b'), A_.Constant(1)])), lambda t: t.update_columns['a']),
                                    'in': (lambda: A_.Select(targets=[A_.Star()], from_table=A_.Identifier('t'), where=A_.BinaryOperation('in', args=[A_.Identifier('a'), A_.Tuple([A_.Constant(1), c_])])), lambda t: t.where.args[1].items[1]),
                                    'func': (lambda: A_.Select(targets=[A_.Function('f', args=[A_.Identifier('a'), c_])]), lambda t: t.targets[0].args[1]),
                                    'where': (lambda: A_.Select(targets=[A_.Star()], from_table=A_.Identifier('t'), where=A_.BinaryOperation('=', args=[A_.Identifier('a'), c_])), lambda t: t.where.args[1]),
                                }[posn]
                                acc.count('number_printed_inside_statements')
                                try:
                                    txt3 = tree_().to_string()
                                    n3 = get_(parse_sql(txt3, dialect))
                                    if type(n3).__name__ == 'UnaryOperation' and type(n3.args[0]).__name__ == 'Constant':
                                        v3 = -n3.args[0].value
                                    else:
                                        v3 = n3.value if type(n3).__name__ == 'Constant' else ('not-a-constant', type(n3).__name__)
                                    ok3 = type(v3) is type(exp) and v3 == exp
                                except Exception as e3:
                                    txt3, v3, ok3 = locals().get('txt3', '?'), 'rejected:' + type(e3).__name__, False
                                if not ok3:
                                    sig = {'direction': 'print', 'kind': 'integer' if isint else 'decimal', 'failure': 'printed-not-read-back', 'position': posn,
                                           'feat': ('exponent' if 'e' in repr(exp) else 'plain') + ('+long' if len(s) > 18 else '')}
                                    det = {'value': repr(exp), 'printed': str(txt3)[:200], 'read_back': repr(v3)[:80], 'dialect': dialect}
                except Exception as e:
                    sig = {'direction': 'parse', 'kind': 'integer' if isint else 'decimal', 'failure': 'rejected:' + type(e).__name__,
                           'feat': ('neg+' if neg else '') + ('leading-zero' if s.startswith('0') and len(s) > 1 else 'plain'),
                           'dialect_class': 'mindsdb' if dialect == 'mindsdb' else 'mysql/sqlite'}
                    det = {'sql': sql, 'dialect': dialect, 'error': str(e)[:160]}
                if sig:
                    sig.setdefault('dialect_class', 'mindsdb' if dialect == 'mindsdb' else 'mysql/sqlite')
                    acc.fail(sig, det)
    # ---- identifier paths -----------------------------------------------------------------------
    run_identifiers(ctx, idx)


PART_POOL = ['monthly  report', 'a   b', 'a', 'Tbl', 'mixedCase', 'x_y', '_u', 'col1', '1st', '9', '007', 'my col', 'a-b', 'a.b', 'é', 'Ünï', 'select', 'FROM',
             'Order', 'group by', 'primary_key', 'last', 'LATEST', 'a b.c d', '$x', 'a$1', 'x y z', '.', 'a.', '.a', 'status', 'Table',
             'a ', ' a', ' a b ', 'Sheet1 ', '  ', 'STRASSE', 'straße', 'FI', 'ﬁ', 'ſ', 'S', 'İ', 'i̇', 'a\rb', 'a\r\nb', 'a\nb', 'a\tb', '\r']

# names that some case mapping / normalisation identifies with one another although they are different names
# (upper(): ß -> SS, ﬁ -> FI, ſ -> S; lower(): İ -> i̇, K (kelvin) -> k): checked in both orders inside one process,
# so that anything the library remembers about the first cannot leak into the second
COLLIDING = [('STRASSE', 'straße'), ('Strasse', 'Straße'), ('FI', 'ﬁ'), ('S', 'ſ'), ('i̇', 'İ'), ('k', '\u212a'), ('a', 'A'),
             ('select', 'SELECT'), ('tbl', 'Tbl'), ('x y', 'X Y'), ('ss', 'ß'), ('É', 'é')]


def part_feat(p):
    from mindsdb_sql.parser.ast.select.identifier import get_reserved_words
    f = []
    if re.fullmatch(r'[A-Za-z_][A-Za-z_0-9]*', p):
        if p.upper() in {w.upper() for w in get_reserved_words()}:
            f.append('keyword')
        if p != p.lower():
            f.append('case')
    else:
        if '.' in p:
            f.append('dot')
        if ' ' in p:
            f.append('space' if p.strip() == p else 'edge-blank')
        if re.match(r'[0-9]', p):
            f.append('digits-first' if not p.isdigit() else 'digits')
        if any(ord(c) > 127 for c in p):
            f.append('nonascii')
        if '$' in p:
            f.append('dollar')
        if '-' in p:
            f.append('dash')
    return '+'.join(f) or 'plain'


def split_path(text):
    """Reference: split at unquoted dots, strip back-quotes.  Returns list of parts or None."""
    parts, cur, i, n = [], '', 0, len(text)
    quoted_any = False
    while i < n:
        c = text[i]
        if c == '`':
            j = text.find('`', i + 1)
            if j < 0:
                return None
            cur += text[i + 1:j]
            quoted_any = True
            i = j + 1
        elif c == '.':
            parts.append(cur)
            cur = ''
            i += 1
        else:
            cur += c
            i += 1
    parts.append(cur)
    return parts


def run_identifiers(ctx, idx):
    from mindsdb_sql import parse_sql
    from mindsdb_sql.parser.ast import Identifier, Select
    acc = ctx.acc
    r = ctx.sub_rng('identifiers')
    paths = [[p] for p in PART_POOL]
    for _ in range(600 if ctx.tier == 'quick' else 6000):
        paths.append([r.choice(PART_POOL) for _ in range(r.randint(2, 4))])
    # plain words that merely begin or end with a keyword of one of the lexers (`selected`, `order_id`, `my_from`, `in1`): one name
    kws = sorted({n.lower() for L in monitors.lexer_classes().values() for n in L.tokens if re.fullmatch(r'[A-Za-z]+', n)})
    affix = [lambda w: w + 'ed', lambda w: w + '_id', lambda w: 'x' + w, lambda w: 'my_' + w, lambda w: w + '1', lambda w: '_' + w, lambda w: w + w,
             lambda w: w.upper() + 'x', lambda w: w + 's', lambda w: w.capitalize() + 'Name',
             # characters that a name may hold but that end a word for the lexers' keyword patterns
             lambda w: w + '$date', lambda w: w + '$', lambda w: '$' + w, lambda w: 'x$' + w, lambda w: w + 'é', lambda w: 'é' + w, lambda w: w + '$1']
    nforms = 4 if ctx.tier == 'quick' else len(affix)
    for wi, w in enumerate(kws):
        for k in range(nforms):
            word = affix[(wi + k * 5) % len(affix)](w)
            if word.lower() not in kws:
                paths.append([word] if (wi + k) % 3 else ['t', word])
    ID_POS = {
        'select': ('SELECT {I} FROM t', lambda t: t.targets[0]),
        'from': ('SELECT * FROM {I}', lambda t: t.from_table),
        'where': ('SELECT * FROM t WHERE {I} = 1', lambda t: t.where.args[0]),
        'insert': ('INSERT INTO {I} (a) VALUES (1)', lambda t: t.table),
        # every statement kind prints its names itself
        'drop-table': ('DROP TABLE {I}', lambda t: t.tables[0]),
        'drop-table-if': ('DROP TABLE IF EXISTS {I}', lambda t: t.tables[0]),
        'update': ('UPDATE {I} SET a = 1', lambda t: t.table),
        'delete': ('DELETE FROM {I} WHERE a = 1', lambda t: t.table),
        'create-table': ('CREATE TABLE {I} (a int)', lambda t: t.name),
        'join': ('SELECT * FROM t JOIN {I} ON 1 = 1', lambda t: t.from_table.right),
        'order-by': ('SELECT a FROM t ORDER BY {I}', lambda t: t.order_by[0].field),
    }
    names = list(ID_POS)
    for pi, parts in enumerate(paths):
        idx += 1
        if not ctx.mine(idx) or ctx.out_of_time():
            continue
        feats = sorted({part_feat(p) for p in parts})
        for dialect in DIALECTS:
            # parse direction, every part back-quoted when it is not a plain word; plain words also tried bare
            for quoting in ('needed', 'all', 'dq-tail', 'dq-all'):
                plain = lambda p: re.fullmatch(r'[A-Za-z_][A-Za-z_0-9]*', p) and part_feat(p) in ('plain', 'case')
                if quoting.startswith('dq'):
                    if dialect != 'mindsdb' or (quoting == 'dq-tail' and len(parts) < 2):
                        continue
                    if quoting == 'dq-all' and names[(pi + len(parts)) % len(names)] in ('select', 'where', 'order-by'):
                        continue    # a lone double-quoted token in expression position is a string constant
                    # double-quoted path components (mindsdb dialect): all of them, or all but the first
                    text = '.'.join((f'`{p}`' if not plain(p) else p) if (i == 0 and quoting == 'dq-tail') else f'"{p}"'
                                    for i, p in enumerate(parts))
                else:
                    text = '.'.join(p if (quoting == 'needed' and plain(p)) else f'`{p}`' for p in parts)
                pos = names[(pi + len(parts)) % len(names)]
                if dialect != 'mindsdb' and pos in ('drop-table', 'drop-table-if', 'update', 'delete', 'create-table', 'join', 'order-by'):
                    pos = names[pi % 4]         # the other two dialects read fewer statement kinds: the four basic positions
                tmpl, get = ID_POS[pos]
                sql = tmpl.format(I=text)
                acc.ev()
                acc.count('parse_checked')
                acc.add('kinds', 'identifier')
                acc.key('parse', 'identifier', text, dialect)
                try:
                    n = get(parse_sql(sql, dialect))
                    got = [str(x) for x in n.parts] if type(n).__name__ == 'Identifier' else None
                except Exception as e:
                    got = 'rejected:' + type(e).__name__
                if got == parts:
                    # ... and the statement printed by the library reads back with the same name (each statement class prints its own)
                    try:
                        t2_ = parse_sql(sql, dialect)
                        n2 = get(parse_sql(t2_.to_string(), dialect))
                        got2 = [str(x) for x in n2.parts] if type(n2).__name__ == 'Identifier' else None
                    except Exception as e:
                        got2 = 'rejected:' + type(e).__name__
                    acc.count('identifier_statement_roundtrips')
                    if got2 != parts:
                        sig = {'direction': 'print', 'kind': 'identifier', 'dialect_class': 'mindsdb' if dialect == 'mindsdb' else 'mysql/sqlite',
                               'failure': 'statement-print-not-read-back', 'position': pos, 'feat': 'path:' + '|'.join(feats)}
                        acc.fail(sig, {'parts': parts, 'sql': sql, 'dialect': dialect, 'got': got2})
                if got != parts:
                    # attribute to the smallest failing single part if there is one
                    culprit = None
                    for p in parts:
                        try:
                            n1 = get(parse_sql(tmpl.format(I=f'`{p}`'), dialect))
                            if [str(x) for x in n1.parts] != [p]:
                                culprit = p
                                break
                        except Exception:
                            culprit = p
                            break
                    if quoting.startswith('dq'):
                        culprit = None
                        for i, p in enumerate(parts):
                            if quoting == 'dq-tail' and i == 0:
                                continue
                            try:
                                pre = 'zz.' if quoting == 'dq-tail' else ''
                                n1 = get(parse_sql(tmpl.format(I=f'{pre}"{p}"'), dialect))
                                if [str(x) for x in n1.parts] != (['zz', p] if pre else [p]):
                                    culprit = p
                                    break
                            except Exception:
                                culprit = p
                                break
                    sig = {'direction': 'parse', 'kind': 'identifier', 'dialect_class': 'mindsdb' if dialect == 'mindsdb' else 'mysql/sqlite',
                           'failure': got if isinstance(got, str) else 'wrong-parts', 'feat': part_feat(culprit) if culprit else 'path:' + '|'.join(feats),
                           'position': pos if culprit is None else '*', 'quoting': 'backquote' if not quoting.startswith('dq') else quoting}
                    acc.fail(sig, {'sql': sql, 'dialect': dialect, 'expected': parts, 'got': got})
            # print direction
        acc.count('print_checked')
        acc.key('print', 'identifier', tuple(parts))
        try:
            txt = Identifier(parts=list(parts)).to_string()
            back = split_path(txt)
        except Exception as e:
            back = 'print-raises:' + type(e).__name__
            txt = None
        if back != parts:
            culprit = None
            for p in parts:
                try:
                    if split_path(Identifier(parts=[p]).to_string()) != [p]:
                        culprit = p
                        break
                except Exception:
                    culprit = p
                    break
            sig = {'direction': 'print', 'kind': 'identifier', 'dialect_class': '*', 'failure': 'printed-denotes-other-parts',
                   'feat': part_feat(culprit) if culprit else 'path:' + '|'.join(feats)}
            acc.fail(sig, {'parts': parts, 'printed': txt, 'decoded': back})
        else:
            # and the printed text must be read back by the library itself as the same parts (bare keywords etc.)
            for dialect in DIALECTS:
                try:
                    n = parse_sql('SELECT ' + txt + ' FROM t', dialect).targets[0]
                    got = [str(x) for x in n.parts] if type(n).__name__ == 'Identifier' else 'not-an-identifier'
                except Exception as e:
                    got = 'rejected:' + type(e).__name__
                if got != parts:
                    culprit = None
                    for p in parts:
                        try:
                            t1 = Identifier(parts=[p]).to_string()
                            n1 = parse_sql('SELECT ' + t1 + ' FROM t', dialect).targets[0]
                            if [str(x) for x in n1.parts] != [p]:
                                culprit = p
                                break
                        except Exception:
                            culprit = p
                            break
                    sig = {'direction': 'print', 'kind': 'identifier', 'dialect_class': 'mindsdb' if dialect == 'mindsdb' else 'mysql/sqlite',
                           'failure': 'printed-not-read-back', 'feat': part_feat(culprit) if culprit else 'path:' + '|'.join(feats)}
                    acc.fail(sig, {'parts': parts, 'printed': txt, 'dialect': dialect, 'got': got})
    # ---- names identified by a case mapping: each order, one after the other in this process -----------
    for ci, (x, y) in enumerate(COLLIDING):
        for first, second in ((x, y), (y, x)):
            idx += 1
            if not ctx.mine(idx):
                continue
            for dialect in DIALECTS:
                acc.ev()
                acc.count('collision_pairs_checked')
                acc.key('collide', first, second, dialect)
                obs = []
                for name in (first, second, first):
                    try:
                        txt = Identifier(parts=[name]).to_string()
                        n = parse_sql('SELECT ' + txt + ' FROM ' + txt, dialect)
                        obs.append(([str(q) for q in n.targets[0].parts] if type(n.targets[0]).__name__ == 'Identifier' else 'not-an-identifier',
                                    [str(q) for q in n.from_table.parts]))
                    except Exception as e:
                        obs.append('rejected:' + type(e).__name__)
                want = [([first], [first]), ([second], [second]), ([first], [first])]
                if obs != want:
                    # a name that fails on its own is the single-name check's business, not an interaction
                    alone = []
                    for name in (first, second):
                        try:
                            txt = Identifier(parts=[name]).to_string()
                            alone.append(split_path(txt) == [name])
                        except Exception:
                            alone.append(False)
                    sig = {'direction': 'print', 'kind': 'identifier', 'dialect_class': 'mindsdb' if dialect == 'mindsdb' else 'mysql/sqlite',
                           'failure': 'second-name-disturbed-by-first', 'feat': part_feat(second)}
                    acc.fail(sig, {'first': first, 'second': second, 'dialect': dialect, 'observed': repr(obs), 'expected': repr(want)})
    # ---- variables -------------------------------------------------------------------------------
    from mindsdb_sql.parser.ast import Variable
    VARS = ['x', 'my_var', 'a.b', 'X', 'sess.v', '$v',
            # (quoted spellings only) names that begin / end with a quote character OTHER than their delimiter, or with a blank
            "rock'n'", '"dq"', 'height_5"', "'lead", '`tick', 'tail`', ' edge ', "it's"]
    for vi, v in enumerate(VARS):
        for sysv in (False, True):
            for quote in ('', "'", '`', '"'):
                idx += 1
                if not ctx.mine(idx):
                    continue
                odd = vi >= 6
                if odd and (not quote or quote in v):
                    continue
                sig_prefix = '@@' if sysv else '@'
                name = v if (not quote or odd) else v + ' q'
                text = sig_prefix + quote + name + quote
                for dialect in ('mindsdb', 'mysql'):
                    acc.ev()
                    acc.count('parse_checked')
                    acc.add('kinds', 'variable')
                    acc.key('parse', 'variable', text, dialect)
                    try:
                        n = parse_sql('SELECT ' + text, dialect).targets[0]
                        ok = type(n).__name__ == 'Variable' and n.value == name and bool(n.is_system_var) == sysv
                        got = (type(n).__name__, getattr(n, 'value', None), getattr(n, 'is_system_var', None))
                    except Exception as e:
                        ok, got = False, 'rejected:' + type(e).__name__
                        if odd and type(e).__name__ in ('LexError', 'ParsingException'):
                            # an odd quoted spelling the lexer does not read at all is outside the statement (it speaks of accepted texts)
                            acc.count('odd_variable_spellings_not_read')
                            continue
                    if not ok:
                        acc.fail({'direction': 'parse', 'kind': 'variable', 'dialect_class': dialect, 'failure': 'wrong-value' if not isinstance(got, str) else got,
                                  'feat': ('system+' if sysv else '') + ('quoted:' + quote if quote else 'bare') + ('+dot' if '.' in v else '') + ('+dollar' if '$' in v else '') + ('+other-quote-at-edge' if vi >= 6 else '')},
                                 {'sql': 'SELECT ' + text, 'dialect': dialect, 'got': got, 'expected': name})


def replay(path):
    import json
    w = json.load(open(path))
    print(json.dumps(w, indent=1)[:3000])
    return 1
