"""R3 - reference printer: mindsdb_sql AST -> SQLite text with full parenthesisation.

Written against the node classes the generators can produce; never uses the library's own to_string().  Identifiers
are resolved through a callback so that the plan interpreter can map `alias.col` to a materialised column."""


class NotPrintable(Exception):
    pass


def q(name):
    return '"' + str(name).replace('"', '""') + '"'


def lit(v):
    if v is None:
        return 'NULL'
    if isinstance(v, bool):
        return '1' if v else '0'
    if isinstance(v, (int, float)):
        return repr(v)
    return "'" + str(v).replace("'", "''") + "'"


class Printer:
    def __init__(self, ident=None, table=None, param=None):
        """ident(node) -> sql text for a column identifier; table(node) -> sql text for a table identifier;
        param(node) -> sql text for a Parameter node."""
        self.ident = ident or (lambda n: '.'.join(q(p) if isinstance(p, str) else '*' for p in n.parts))
        self.table = table or (lambda n: '.'.join(q(p) for p in n.parts))
        self.param = param

    def alias(self, n):
        a = getattr(n, 'alias', None)
        if a is None:
            return ''
        return ' AS ' + q(a.parts[-1])

    def expr(self, n, with_alias=False):
        s = self._expr(n)
        return s + (self.alias(n) if with_alias else '')

    def _expr(self, n):
        cls = type(n).__name__
        if cls == 'Identifier':
            return self.ident(n)
        if cls == 'NullConstant':
            return 'NULL'
        if cls == 'Constant':
            return lit(n.value)
        if cls == 'Star':
            return '*'
        if cls == 'Parameter':
            if self.param is None:
                raise NotPrintable('parameter')
            return self.param(n)
        if cls == 'BinaryOperation':
            op = n.op.upper()
            a, b = n.args
            if op in ('IN', 'NOT IN'):
                if type(b).__name__ == 'Tuple':
                    return f'({self._expr(a)} {op} ({", ".join(self._expr(i) for i in b.items)}))'
                if type(b).__name__ in ('Select', 'Union', 'Intersect', 'Except'):
                    return f'({self._expr(a)} {op} ({self.select(b)}))'
                if type(b).__name__ == 'Parameter':
                    return f'({self._expr(a)} {op} {self._expr(b)})'
                return f'({self._expr(a)} {op} ({self._expr(b)}))'
            if op == '!=':
                op = '<>'
            return f'({self._expr(a)} {op} {self._expr(b)})'
        if cls == 'UnaryOperation':
            return f'({n.op.upper()} {self._expr(n.args[0])})'
        if cls == 'BetweenOperation':
            a, b, c = n.args
            return f'({self._expr(a)} BETWEEN {self._expr(b)} AND {self._expr(c)})'
        if cls == 'Function':
            args = ', '.join(self._expr(a) for a in n.args)
            if n.from_arg is not None:
                raise NotPrintable('function FROM-argument')
            d = 'DISTINCT ' if n.distinct else ''
            return f'{n.op}({d}{args})'
        if cls == 'WindowFunction':
            w = []
            if n.partition:
                w.append('PARTITION BY ' + ', '.join(self._expr(p) for p in n.partition))
            if n.order_by:
                w.append('ORDER BY ' + ', '.join(self.order_term(o) for o in n.order_by))
            return f'{self._expr(n.function)} OVER ({" ".join(w)})'
        if cls == 'Tuple':
            return '(' + ', '.join(self._expr(i) for i in n.items) + ')'
        if cls == 'Case':
            s = 'CASE'
            if n.arg is not None:
                s += ' ' + self._expr(n.arg)
            for c, r in n.rules:
                s += f' WHEN {self._expr(c)} THEN {self._expr(r)}'
            if n.default is not None:
                s += ' ELSE ' + self._expr(n.default)
            return '(' + s + ' END)'
        if cls == 'TypeCast':
            return f'CAST({self._expr(n.arg)} AS {n.type_name})'
        if cls in ('Select', 'Union', 'Intersect', 'Except'):
            return '(' + self.select(n) + ')'
        if cls == 'Exists':
            return f'(EXISTS ({self.select(n.args[0])}))'
        if cls == 'NotExists':
            return f'(NOT EXISTS ({self.select(n.args[0])}))'
        raise NotPrintable(cls)

    def order_term(self, o):
        s = self._expr(o.field)
        d = (o.direction or '').upper()
        if d in ('ASC', 'DESC'):
            s += ' ' + d
        nl = (o.nulls or '').upper() if isinstance(o.nulls, str) else ''
        if nl in ('NULLS FIRST', 'NULLS LAST'):
            s += ' ' + nl
        return s

    def from_item(self, n):
        cls = type(n).__name__
        if cls == 'Identifier':
            return self.table(n) + self.alias(n)
        if cls in ('Select', 'Union', 'Intersect', 'Except'):
            return '(' + self.select(n) + ')' + self.alias(n)
        if cls == 'Join':
            jt = ' '.join(n.join_type.upper().split())
            s = self.from_item(n.left)
            if n.implicit:
                return s + ', ' + self.from_item(n.right)
            s += f' {jt} ' + self.from_item(n.right)
            if n.condition is not None:
                s += ' ON ' + self._expr(n.condition)
            return s
        raise NotPrintable('from:' + cls)

    def select(self, n, from_override=None):
        cls = type(n).__name__
        if cls in ('Union', 'Intersect', 'Except'):
            op = {'Union': 'UNION', 'Intersect': 'INTERSECT', 'Except': 'EXCEPT'}[cls]
            if not n.unique:
                op += ' ALL'
            right = self.select(n.right)
            if type(n.right).__name__ in ('Union', 'Intersect', 'Except'):
                right = f'SELECT * FROM ({right})'      # a grouped right operand, in the form SQLite reads
            return f'{self.select(n.left)} {op} {right}'
        if cls != 'Select':
            raise NotPrintable(cls)
        s = ''
        if n.cte:
            parts = []
            for c in n.cte:
                parts.append(f'{q(c.name.parts[-1])} AS ({self.select(c.query)})')
            s += 'WITH ' + ', '.join(parts) + ' '
        s += 'SELECT ' + ('DISTINCT ' if n.distinct else '')
        s += ', '.join(self.expr(t, with_alias=True) for t in n.targets)
        if from_override is not None:
            s += ' FROM ' + from_override
        elif n.from_table is not None:
            s += ' FROM ' + self.from_item(n.from_table)
        if n.where is not None:
            s += ' WHERE ' + self._expr(n.where)
        if n.group_by:
            s += ' GROUP BY ' + ', '.join(self._expr(g) for g in n.group_by)
        if n.having is not None:
            s += ' HAVING ' + self._expr(n.having)
        if n.order_by:
            s += ' ORDER BY ' + ', '.join(self.order_term(o) for o in n.order_by)
        if n.limit is not None:
            s += f' LIMIT {int(n.limit.value)}'
        elif n.offset is not None:
            s += ' LIMIT -1'
        if n.offset is not None:
            s += f' OFFSET {int(n.offset.value)}'
        return s
