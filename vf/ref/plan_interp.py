"""R6 - reference interpreter of a QueryPlan over the sqlite3 reference engine.

Each step result is a materialised temp table res_<k> (physical columns c0..cn, insertion order kept) plus one
descriptor (table alias, table name, column name) per column.  Step meanings follow the docstrings of
mindsdb_sql/planner/steps.py.  A reference that cannot be resolved unambiguously makes the case NotInterpretable -
never a verdict."""
import re
import sqlite3

from vf.ref.printer import Printer, NotPrintable, q, lit


class MissingTable(Exception):
    """A fetch step asks an integration for a table (or a column, e.g. one still qualified by a name the integration does not know) that it does not have."""


class NotInterpretable(Exception):
    pass


class UnknownName(NotInterpretable):
    """A step refers to a column by a name that none of its inputs has."""
    def __init__(self, msg, name):
        super().__init__(msg)
        self.name = name


class Rel:
    def __init__(self, name, descs):
        self.name = name
        self.descs = descs          # list of (alias, table, column) - lower-cased strings or None

    def __repr__(self):
        return f'Rel({self.name}, {self.descs})'


class Interp:
    def __init__(self, db, model=None, log=None):
        self.db = db
        self.results = {}
        self.n = 0
        self.model = model
        self.log = log if log is not None else []

    # ---- materialisation -------------------------------------------------------------------------------------
    def materialise(self, rows, descs):
        self.n += 1
        name = f'res_{self.n}'
        ncol = len(descs)
        self.db.execute(f'create temp table {name} (' + ', '.join(f'c{i}' for i in range(max(ncol, 1))) + ')')
        if rows and ncol:
            self.db.executemany(f'insert into {name} values (' + ','.join('?' * ncol) + ')', rows)
        return Rel(name, descs)

    def rows(self, rel, order=True):
        if not rel.descs:
            return []
        return self.db.execute(f'select {", ".join("c%d" % i for i in range(len(rel.descs)))} from {rel.name} order by rowid').fetchall()

    def get(self, res):
        k = res.step_num
        if k not in self.results:
            raise NotInterpretable(f'reference to step {k!r} that has not been computed')
        return self.results[k]

    # ---- identifier resolution -----------------------------------------------------------------------------
    def resolver(self, rels, table_name=None):
        """ident callback mapping an Identifier to a physical column of one of `rels`."""
        cands = []
        for rel in rels:
            for i, d in enumerate(rel.descs):
                cands.append((rel, i, d))

        def ident(node):
            parts = [str(p).lower() if isinstance(p, str) else '*' for p in node.parts]
            if parts[-1] == '*':
                qual = parts[:-1]
                cols = [(rel, i) for rel, i, d in cands if not qual or self._qual_matches(d, qual, table_name)]
                if not cols:
                    raise NotInterpretable(f'no columns for {node.parts}')
                return ', '.join(f'{rel.name}.c{i}' for rel, i in cols)
            col = parts[-1]
            qual = parts[:-1]
            hits = [(rel, i) for rel, i, d in cands if d[2] == col and (not qual or self._qual_matches(d, qual, table_name))]
            if not hits and qual:
                # the qualifier names nothing in this dataframe: an executor working on a dataframe can still find the column
                # by its name when that is unique (this is also what makes a wrongly wired plan observable instead of skipped)
                hits = [(rel, i) for rel, i, d in cands if d[2] == col]
            if not hits:
                raise UnknownName(f'identifier {".".join(parts)} resolves to 0 columns', col)
            if len(hits) != 1:
                raise NotInterpretable(f'identifier {".".join(parts)} resolves to {len(hits)} columns')
            rel, i = hits[0]
            return f'{rel.name}.c{i}'
        return ident

    @staticmethod
    def _qual_matches(d, qual, table_name):
        alias, table, col = d
        last = qual[-1]
        if table_name is not None and last == str(table_name).lower():
            return True
        if alias is not None:
            return alias == last
        return table == last

    def param(self, node):
        v = node.value
        if type(v).__name__ == 'Result':
            rel = self.get(v)
            return f'(SELECT c0 FROM {rel.name})'
        raise NotInterpretable('unbound parameter')

    # ---- steps -----------------------------------------------------------------------------------------------
    def run(self, plan):
        last = None
        for st in plan.steps:
            last = self.step(st)
            self.results[st.step_num] = last
        return last

    def step(self, st):
        cls = type(st).__name__
        fn = getattr(self, 'do_' + cls, None)
        if fn is None:
            raise NotInterpretable('step kind ' + cls)
        rel = fn(st)
        self.log.append((cls, st.step_num, len(self.rows(rel)) if rel is not None else None))
        return rel

    def do_FetchDataframeStep(self, st):
        if st.query is None:
            raise NotInterpretable('raw query fetch')
        integ = str(st.integration)
        query = st.query
        cte_names = set()
        for c in (getattr(query, 'cte', None) or []):
            cte_names.add(str(c.name.parts[-1]).lower())

        def table(n):
            parts = [str(p) for p in n.parts]
            if len(parts) == 1 and parts[0].lower() in cte_names:
                return q(parts[0])
            return q(integ) + '.' + '.'.join(q(p) for p in parts)
        pr = Printer(table=table, param=self.param)
        try:
            sql = pr.select(query)
        except NotPrintable as e:
            raise NotInterpretable(f'fetch query not printable: {e}')
        try:
            cur = self.db.execute(sql)
        except sqlite3.Error as e:
            if str(e).startswith(('no such table', 'no such column')):
                raise MissingTable(f'{e} (asked of {integ}): {sql}')
            m3 = re.search(r'(?:FROM|JOIN) ("\w+"\."\w+"\."\w+")', sql)
            if m3 and 'syntax error' in str(e):
                # a table named with a schema part inside the integration (`<integration>.<schema>.<table>`): the reference engine cannot
                # even read such a name, and no integration of the harness holds schemas - it is a table the integration does not have
                raise MissingTable(f'no such table: {m3.group(1).replace(chr(34), "")} (asked of {integ}): {sql}')
            raise NotInterpretable(f'fetch query not executable: {e}: {sql}')
        rows = cur.fetchall()
        names = [d[0].lower() for d in cur.description]
        alias = table_nm = None
        ft = getattr(query, 'from_table', None)
        if type(query).__name__ == 'Select' and type(ft).__name__ == 'Identifier' and len(query.targets) == 1 and type(query.targets[0]).__name__ == 'Star':
            table_nm = str(ft.parts[-1]).lower()
            alias = str(ft.alias.parts[-1]).lower() if ft.alias is not None else None
        return self.materialise(rows, [(alias, table_nm, nm) for nm in names])

    def _select_over(self, query, rels, from_sql, table_name=None):
        from vf import monitors
        import copy as _copy
        if getattr(query, 'cte', None):
            # the CTE definitions left on a dataframe query were planned as steps of their own
            query = _copy.copy(query)
            query.cte = None
        for path, o in monitors.walk(query):
            if o is not query and type(o).__name__ == 'Select' and getattr(o, 'from_table', None) is not None:
                # a sub-select that reads a table cannot be carried out on a dataframe: outside the documented step meaning
                raise NotInterpretable('table reference inside a dataframe step')
        pr = Printer(ident=self.resolver(rels, table_name), param=self.param)
        try:
            sql = pr.select(query, from_override=from_sql)
        except NotPrintable as e:
            raise NotInterpretable(f'query not printable: {e}')
        try:
            cur = self.db.execute(sql)
        except sqlite3.Error as e:
            raise NotInterpretable(f'step query not executable: {e}: {sql}')
        rows = cur.fetchall()
        # output descriptors
        descs = []
        for t in query.targets:
            tn = type(t).__name__
            if tn == 'Star' or (tn == 'Identifier' and not isinstance(t.parts[-1], str)):
                qual = [str(p).lower() for p in t.parts[:-1]] if tn == 'Identifier' else []
                for rel in rels:
                    for d in rel.descs:
                        if not qual or self._qual_matches(d, qual, table_name):
                            descs.append((table_name.lower() if table_name else d[0], d[1], d[2]))
            else:
                if t.alias is not None:
                    nm = str(t.alias.parts[-1]).lower()
                elif tn == 'Identifier':
                    nm = str(t.parts[-1]).lower()
                else:
                    nm = None
                descs.append((table_name.lower() if table_name else None, None, nm))
        if len(descs) != (len(rows[0]) if rows else len(descs)):
            descs = [(None, None, (d[0] or '').lower()) for d in cur.description]
        return self.materialise(rows, descs)

    def do_SubSelectStep(self, st):
        rel = self.get(st.dataframe)
        return self._select_over(st.query, [rel], rel.name, table_name=st.table_name)

    def do_QueryStep(self, st):
        if st.from_table is None:
            raise NotInterpretable('QueryStep without from_table')
        rel = self.get(st.from_table)
        return self._select_over(st.query, [rel], rel.name)

    def do_JoinStep(self, st):
        left, right = self.get(st.left), self.get(st.right)
        j = st.query
        jt = ' '.join(j.join_type.upper().split())
        cond = ''
        if j.condition is not None:
            pr = Printer(ident=self.resolver([left, right]), param=self.param)
            try:
                cond = ' ON ' + pr.expr(j.condition)
            except NotPrintable as e:
                raise NotInterpretable(f'join condition: {e}')
        elif 'CROSS' not in jt:
            jt = 'CROSS JOIN' if jt in ('JOIN', 'INNER JOIN') else jt
            if jt != 'CROSS JOIN':
                cond = ' ON 1=1'
        lcols = [f'{left.name}.c{i}' for i in range(len(left.descs))]
        rcols = [f'{right.name}.c{i}' for i in range(len(right.descs))]
        sql = f'SELECT {", ".join(lcols + rcols)} FROM {left.name} {jt} {right.name}{cond}'
        try:
            rows = self.db.execute(sql).fetchall()
        except sqlite3.Error as e:
            raise NotInterpretable(f'join not executable: {e}')
        return self.materialise(rows, list(left.descs) + list(right.descs))

    def do_UnionStep(self, st):
        a, b = self.get(st.left), self.get(st.right)
        if len(a.descs) != len(b.descs):
            raise NotInterpretable('union of different widths')
        # bag / set semantics written out (SQLite has no INTERSECT ALL / EXCEPT ALL to delegate to)
        from collections import Counter
        ra, rb = [tuple(x) for x in self.rows(a)], [tuple(x) for x in self.rows(b)]
        key = lambda row: tuple(('n',) if v is None else ('v', v) for v in row)
        ca, cb = Counter(map(key, ra)), Counter(map(key, rb))
        if st.operation not in ('union', 'intersect', 'except'):
            raise NotInterpretable(f'set operation {st.operation}')
        if st.operation == 'union':
            rows = ra + rb
            want = None
        elif st.operation == 'intersect':
            rows = ra
            want = {k: min(n, cb.get(k, 0)) for k, n in ca.items()}
        else:
            rows = ra
            want = {k: (max(n - cb.get(k, 0), 0) if not st.unique else (0 if cb.get(k, 0) else n)) for k, n in ca.items()}
        out, seen = [], Counter()
        for row in rows:
            k = key(row)
            if want is not None and seen[k] >= want[k]:
                continue
            if st.unique and seen[k] >= 1:
                continue
            seen[k] += 1
            out.append(row)
        rows = out
        return self.materialise(rows, list(a.descs))

    def do_LimitOffsetStep(self, st):
        rel = self.get(st.dataframe)
        rows = self.rows(rel)
        off = int(st.offset.value if hasattr(st.offset, 'value') else st.offset) if st.offset is not None else 0
        lim = st.limit.value if hasattr(st.limit, 'value') else st.limit
        rows = rows[off:] if lim is None else rows[off:off + int(lim)]
        return self.materialise(rows, list(rel.descs))

    def do_ProjectStep(self, st):
        rel = self.get(st.dataframe)
        from mindsdb_sql.parser.ast import Select
        return self._select_over(Select(targets=list(st.columns)), [rel], rel.name)

    def do_MultipleSteps(self, st):
        out_rows, descs = [], None
        for sub in st.steps:
            r = self.step(sub)
            if descs is None:
                descs = list(r.descs)
            out_rows += self.rows(r)
        if st.reduce not in (None, 'union'):
            raise NotInterpretable(f'reduce {st.reduce}')
        return self.materialise(out_rows, descs or [])

    def do_MapReduceStep(self, st):
        import copy
        vals = self.get(st.values)
        if st.partition is not None or isinstance(st.step, list):
            raise NotInterpretable('partitioned map-reduce')
        out_rows, descs = [], None
        names = [d[2] for d in vals.descs]
        for row in self.rows(vals):
            env = dict(zip(names, row))
            sub = copy.deepcopy(st.step)
            self._substitute_vars(sub, env)
            r = self.step(sub)
            if descs is None:
                descs = list(r.descs)
            out_rows += self.rows(r)
        if descs is None:
            # no partition values: run nothing; shape unknown
            descs = []
        if st.reduce != 'union':
            raise NotInterpretable(f'reduce {st.reduce}')
        return self.materialise(out_rows, descs)

    def _substitute_vars(self, step, env):
        from vf import monitors
        for path, o in monitors.walk(step):
            if type(o).__name__ == 'Constant' and isinstance(o.value, str):
                m = re.fullmatch(r'\$var\[(.+)\]', o.value)
                if m:
                    key = m.group(1).lower()
                    if key not in env:
                        raise NotInterpretable(f'unknown variable {key}')
                    o.value = env[key]
                    if o.value is None:
                        # `col = NULL` never matches, which is what the engine would do with a NULL partition value
                        pass
