"""List signatures and first witness of the replay files of a property (developer tool)."""
import json, glob, sys
for f in sorted(glob.glob(f'/verif/replays/{sys.argv[1]}/*.json')):
    w = json.load(open(f))
    wit = w['witnesses'][0] if w['witnesses'] else {}
    keys = sys.argv[2:] or ['text', 'dialect', 'exception']
    print(w['count'], json.dumps(w['signature'], sort_keys=True), '|', {k: wit.get(k) for k in keys})
