#!/bin/bash
# Run every registered check (quick or thorough) in /verif against /repo and validate the evidence files.
tier=${1:-quick}
cd /verif
rc=0
for id in C01 C02 C03 C04 C05 C06 C07 C08 C09 C10 C11 C12 C13 C14 C15 C16 C17 C18 C19 C20; do
  out=$(/venv/bin/python -m vf.run $id --tier $tier 2>&1)
  code=$?
  echo "$id exit=$code $(echo "$out" | grep -E '^(HELD|VIOLATION|INCONCLUSIVE)' | head -2 | cut -c1-150)"
  [ $code -ne 0 ] && rc=1
done
python3-vt - <<'P'
import json, jsonschema, glob
sch = json.load(open('/root/.vp/EVIDENCE.schema.json'))
bad = 0
for f in sorted(glob.glob('/verif/evidence/*.json')):
    try:
        jsonschema.validate(json.load(open(f)), sch)
    except Exception as e:
        bad += 1
        print('INVALID', f, str(e)[:200])
jsonschema.validate(json.load(open('/verif/MANIFEST.json')), json.load(open('/root/.vp/MANIFEST.schema.json')))
print('evidence files valid:', len(glob.glob('/verif/evidence/*.json')) - bad, 'invalid:', bad, '; manifest valid')
P
exit $rc
