#!/bin/bash
# Re-confirm every kept seeded change against the current /repo HEAD (patch applies, suite passes with it, demo fails with it,
# demo passes without it) and re-run the owning check against it; rewrites seeded/<id>/meta.json.
cd /verif
for d in seeded/*/; do
  name=$(basename $d); prop=$(echo $name | cut -d- -f1)
  /venv/bin/python selftest/confirm_seed.py $d $prop $name ${1:-} 2>&1 | head -1 | cut -c1-160
done
