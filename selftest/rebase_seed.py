#!/venv/bin/python
"""Re-create a seeded patch against the current /repo by re-applying textual replacements.
usage: rebase_seed.py <outdir> <srcdir-with-demo-notes> <note> <file> <old> <new> [<file> <old> <new> ...]"""
import os, shutil, subprocess, sys, tempfile
out, src, note = sys.argv[1:4]
triples = sys.argv[4:]
tmp = tempfile.mkdtemp(prefix='rb.', dir='/tmp')
subprocess.check_call(f'rsync -a --exclude __pycache__ /repo/ {tmp}/', shell=True)
for i in range(0, len(triples), 3):
    f, old, new = triples[i:i + 3]
    old = old.encode().decode('unicode_escape'); new = new.encode().decode('unicode_escape')
    p = os.path.join(tmp, f)
    s = open(p).read()
    assert s.count(old) == 1, (f, s.count(old))
    open(p, 'w').write(s.replace(old, new))
os.makedirs(out, exist_ok=True)
diff = subprocess.run(['git', 'diff'], cwd=tmp, capture_output=True, text=True).stdout
open(os.path.join(out, 'patch.diff'), 'w').write(diff)
shutil.copy(os.path.join(src, 'demo.py'), out)
head = subprocess.run(['git', '-C', '/repo', 'rev-parse', '--short', 'HEAD'], capture_output=True, text=True).stdout.strip()
open(os.path.join(out, 'notes.md'), 'w').write(open(os.path.join(src, 'notes.md')).read() + f'\n\nNOTE (rebased): {note} patch.diff is against {head}.\n')
shutil.rmtree(tmp)
print(out, len(diff.splitlines()), 'diff lines')
