#!/bin/bash
# usage: run_mutant.sh <patch> <PROP> [tier] [--tests]
# Copies /repo to a scratch dir outside /repo and /verif, applies the patch, optionally runs the
# repo's own suite there, runs the property check against it (VERIF_REPO), prints the exit code, deletes the copy.
set -u
patch=$(readlink -f "$1"); prop=$2; tier=${3:-quick}; tests=${4:-}
scratch=$(mktemp -d /tmp/vfmut.XXXXXX)
rsync -a --exclude .git --exclude __pycache__ /repo/ "$scratch/"
( cd "$scratch" && patch -p1 -s < "$patch" ) || { echo "PATCH-FAILED"; rm -rf "$scratch"; exit 3; }
if [ "$tests" = "--tests" ]; then
  ( cd "$scratch" && /venv/bin/python -m pytest -q -x -p no:cacheprovider tests 2>&1 | tail -2 )
fi
cd /verif && VERIF_REPO="$scratch" /venv/bin/python -m vf.run "$prop" --tier "$tier" 2>&1 | tail -${TAILN:-6}
rc=${PIPESTATUS[0]}
echo "MUTANT $(basename $patch) $prop exit=$rc"
rm -rf "$scratch"
exit $rc
