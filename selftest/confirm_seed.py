#!/venv/bin/python
"""Confirm a seeded property-breaking change and record it under /verif/seeded/<name>/.

usage: confirm_seed.py <srcdir with patch.diff, demo.py, notes.md> <PROP> <name> [--tier quick|thorough|both] [--no-tests]

Steps (all in a scratch copy of /repo outside /repo and /verif, deleted afterwards):
  1. demo.py on the unchanged copy            -> must exit 0
  2. apply patch.diff; repo's own test suite  -> must pass
  3. demo.py on the patched copy              -> must exit non-zero
  4. the property's check (VERIF_REPO=<copy>) -> exit code recorded (1 = caught)
"""
import json
import os
import shutil
import subprocess
import sys
import tempfile
import time

VERIF = os.path.dirname(os.path.dirname(os.path.abspath(__file__)))
PY = '/venv/bin/python'


def sh(cmd, cwd, env=None, timeout=3600):
    e = dict(os.environ)
    e.update(env or {})
    p = subprocess.run(cmd, cwd=cwd, env=e, shell=isinstance(cmd, str), capture_output=True, text=True, timeout=timeout)
    return p.returncode, (p.stdout + p.stderr)


def main():
    src, prop, name = sys.argv[1:4]
    tier = 'quick'
    if '--tier' in sys.argv:
        tier = sys.argv[sys.argv.index('--tier') + 1]
    run_tests = '--no-tests' not in sys.argv
    src = os.path.abspath(src)
    scratch = tempfile.mkdtemp(prefix='vfseed.', dir='/tmp')
    meta = {'property': prop, 'name': name, 'confirmed_at': time.strftime('%Y-%m-%d %H:%M:%S')}
    try:
        sh(f'rsync -a --exclude .git --exclude __pycache__ /repo/ {scratch}/', '/')
        rc0, out0 = sh([PY, os.path.join(src, 'demo.py')], scratch)
        meta['demo_unpatched_exit'] = rc0
        rc, out = sh(f'patch -p1 -s < {src}/patch.diff', scratch)
        if rc != 0:
            print('PATCH FAILED', out)
            return 3
        if run_tests:
            rct, outt = sh(f'{PY} -m pytest -q -p no:cacheprovider tests 2>&1 | tail -1', scratch)
            meta['suite_with_patch'] = outt.strip().splitlines()[-1] if outt.strip() else ''
        rc1, out1 = sh([PY, os.path.join(src, 'demo.py')], scratch)
        meta['demo_patched_exit'] = rc1
        meta['demo_patched_output_tail'] = out1[-600:]
        checks = {}
        for t in (['quick', 'thorough'] if tier == 'both' else [tier]):
            rcc, outc = sh([PY, '-m', 'vf.run', prop, '--tier', t], VERIF, env={'VERIF_REPO': scratch})
            lines = [l for l in outc.splitlines() if l.startswith(('VIOLATION', 'INCONCLUSIVE', 'HELD', 'KNOWN-FINDING'))]
            sigs = [l.strip() for l in outc.splitlines() if l.strip().startswith('signature=')]
            checks[t] = {'exit': rcc, 'verdict_lines': lines[:6], 'signatures': [s[:300] for s in sigs[:4]]}
            if rcc == 1 and tier == 'both':
                break
        meta['check'] = checks
    finally:
        shutil.rmtree(scratch, ignore_errors=True)
    ok = meta['demo_unpatched_exit'] == 0 and meta['demo_patched_exit'] != 0 and (
        not run_tests or ('passed' in meta.get('suite_with_patch', '') and 'failed' not in meta.get('suite_with_patch', '')))
    meta['confirmed'] = ok
    caught = any(c['exit'] == 1 for c in meta['check'].values())
    meta['caught'] = caught
    print(f"{name}: confirmed={ok} caught={caught} unpatched_demo={meta['demo_unpatched_exit']} patched_demo={meta['demo_patched_exit']} "
          f"suite={meta.get('suite_with_patch', 'skipped')!r}")
    for t, c in meta['check'].items():
        print(f"  {t}: exit={c['exit']} " + ' | '.join(x[:260] for x in (c['signatures'][:2] or [l for l in c['verdict_lines'] if not l.startswith('KNOWN')][:2])))
    if ok:
        dst = os.path.join(VERIF, 'seeded', name)
        os.makedirs(dst, exist_ok=True)
        for f in ('patch.diff', 'demo.py', 'notes.md'):
            if os.path.exists(os.path.join(src, f)) and os.path.abspath(os.path.join(src, f)) != os.path.abspath(os.path.join(dst, f)):
                shutil.copy(os.path.join(src, f), os.path.join(dst, f))
        notes = ''
        if os.path.exists(os.path.join(src, 'notes.md')):
            notes = open(os.path.join(src, 'notes.md')).read()
        meta['breaks'] = prop
        meta['needs_to_manifest'] = notes[:1500]
        meta['what_was_run'] = ('selftest/confirm_seed.py: demo on unchanged copy (exit 0), patch applied, repo suite, '
                                'demo on patched copy (exit != 0), then `python -m vf.run %s --tier <tier>` with VERIF_REPO=<patched copy>' % prop)
        with open(os.path.join(dst, 'meta.json'), 'w') as f:
            json.dump(meta, f, indent=1)
    return 0 if (ok and caught) else (4 if ok else 5)


if __name__ == '__main__':
    sys.exit(main())
