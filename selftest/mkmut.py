#!/venv/bin/python
"""Create a mutant patch: mkmut.py <name> <repo-relative file> <old text> <new text>  (exactly one occurrence unless --all)"""
import difflib, sys, os
name, rel, old, new = sys.argv[1:5]
src = open(os.path.join('/repo', rel)).read()
old = old.encode().decode('unicode_escape'); new = new.encode().decode('unicode_escape')
n = src.count(old)
if n == 0 or (n > 1 and '--all' not in sys.argv and '--first' not in sys.argv):
    sys.exit(f'old text occurs {n} times')
dst = src.replace(old, new, 1 if '--first' in sys.argv else -1)
diff = ''.join(difflib.unified_diff(src.splitlines(True), dst.splitlines(True), 'a/' + rel, 'b/' + rel))
out = os.path.join(os.path.dirname(os.path.abspath(__file__)), 'mutants', name + '.patch')
open(out, 'w').write(diff)
print(out)
