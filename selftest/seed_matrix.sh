#!/bin/bash
# Every kept seeded change (and every mutant) against its check at several VERIF_SEED values (quick tier): prints the ones NOT caught.
# usage: seed_matrix.sh "0 1 2" [parallelism]
cd /verif
seeds=${1:-"0 1 2"}; par=${2:-4}
( for d in seeded/*/; do n=$(basename $d); p=$(echo $n | cut -d- -f1); for s in $seeds; do echo "$d/patch.diff $p $s $n"; done; done
  for f in selftest/mutants/*.patch; do n=$(basename $f .patch); p=$(echo $n | cut -d- -f1); for s in $seeds; do echo "$f $p $s $n"; done; done ) |
xargs -P $par -L 1 sh -c 'VERIF_SEED=$2 TAILN=1 selftest/run_mutant.sh $0 $1 quick >/tmp/sm.$$.out 2>&1; rc=$?; [ $rc -eq 1 ] || echo "NOT-CAUGHT $3 seed=$2 exit=$rc"; rm -f /tmp/sm.$$.out'
echo matrix-done
