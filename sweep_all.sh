#!/bin/bash
# usage: sweep_all.sh <tier> <seed_from> <seed_to> [ids...]
tier=$1; a=$2; b=$3; shift 3
ids=${@:-C01 C02 C03 C04 C05 C06 C07 C08 C09 C10 C11 C12 C13 C14 C15 C16 C17 C18 C19 C20}
for id in $ids; do
  /venv/bin/python -m vf.sweep $id $tier $a $b 2>&1 | grep -E "NEW|distinct unexplained|exit [12]" | cut -c1-600 | sed "s/^/$id /"
done
